#!/bin/sh
# Offline setup: make sure /venv's bfg9000 is the editable install of /repo.
set -e
cd "$(dirname "$0")"
exec /venv/bin/python -m bfgsim.setup
