#!/bin/sh
# tools/recheck_missed.sh <seeded id>...: for seeded changes the quick check no
# longer reports, run the change's own demo on HEAD + patch: exit 0 means the
# change no longer breaks the property on the current tree (a later fix made
# the code robust against it), non-zero means the check really misses it.
cd "$(dirname "$0")/.."
for id in "$@"; do
  d=$(pwd)/seeded/$id
  wt=$(mktemp -d /tmp/recheck-XXXXXX); rmdir "$wt"
  git -C /repo worktree add -f "$wt" HEAD >/dev/null 2>&1
  if git -C "$wt" apply "$d/patch.diff" 2>/dev/null || git -C "$wt" apply --3way "$d/patch.diff" 2>/dev/null; then
    if [ -f "$d/demo.py" ]; then PATH=/venv/bin:$PATH timeout 900 /venv/bin/python "$d/demo.py" "$wt" >/tmp/recheck.log 2>&1; else PATH=/venv/bin:$PATH timeout 900 bash "$d/demo.sh" "$wt" >/tmp/recheck.log 2>&1; fi
    echo "$id demo-on-HEAD+patch exit=$?"
  else
    echo "$id patch-does-not-apply"
  fi
  git -C /repo worktree remove --force "$wt" >/dev/null 2>&1
done
