#!/bin/sh
# tools/try_seeded.sh <patch.diff> <PROP> [budget_s]
# Applies a seeded change to a scratch worktree of /repo's HEAD (never to /repo
# itself while background sweeps use it), runs the property's quick check
# against it and removes the worktree.  Exit status = the check's.
set -e
patch=$(readlink -f "$1"); prop=$2; budget=${3:-60}
wt=$(mktemp -d /tmp/seeded-wt-XXXXXX)
rmdir "$wt"
git -C /repo worktree add -f "$wt" ${SEEDED_BASE:-HEAD} >/dev/null 2>&1
trap 'git -C /repo worktree remove --force "$wt" >/dev/null 2>&1 || rm -rf "$wt"' EXIT
# (a patch written against an older HEAD: fall back to a three-way merge)
git -C "$wt" apply "$patch" 2>/dev/null || git -C "$wt" apply --3way "$patch"
cd "$(dirname "$0")/.."
set +e
BFGSIM_REPO="$wt" BFGSIM_BUDGET_S=$budget ./check "$prop" --tier quick
rc=$?
exit $rc
