#!/venv/bin/python
"""Writes the hand-made pinned replays for C08 (histories that violated the
property on the tree before the corresponding fix: commits)."""
import json
import os
import sys
sys.path.insert(0, os.path.dirname(os.path.dirname(os.path.abspath(__file__))))
from bfgsim import gen as G

OUT = os.path.join(os.path.dirname(os.path.dirname(os.path.abspath(__file__))),
                   'replays', 'pinned')
CFG = {'clock_mode': 'strict', 'bufsize': 4096, 'launch_limit': 3,
       'backend': 'make', 'seed': 0, 'gate_aux': True}


def project(stmts, files, dirs=()):
    p = G.Project()
    p.scripts['build.bfg'] = stmts
    p.files = dict(files)
    p.dirs = list(dirs)
    return p


def save(name, proj, ops, oracle, note):
    rep = {'property': 'C08', 'seed': 0, 'project': proj.to_json(),
           'cfg': CFG, 'ops': ops, 'note': note,
           'violation': {'property': 'C08', 'oracle': oracle,
                         'features': []}}
    with open(os.path.join(OUT, name), 'w') as f:
        json.dump(rep, f, indent=1, sort_keys=True)


S, call, Raw = G.Stmt, G.call, G.Raw
src = G.c_source

# 1. regenerate rule with several outputs (pkg_config) + a new matching file
save('C08-multi-output-depfile.json', project(
    [S('project', call('project', 'demo', version='1.0')),
     S('find', call('find_files', 'include/*.h'), 'hdrs'),
     S('library', call('library', 'foo', files=['src/a.c']), 'foo'),
     S('install', call('install', Raw('foo'))),
     S('pkg_config', call('pkg_config', auto_fill=True))],
    {'src/a.c': src('a'), 'include/foo.h': src('foo.h')}),
    [['build'], ['write', 'include/new.h', src('new.h')], ['regen']],
    'equality',
    'adding a file matched by find_files() never regenerates when the '
    'regenerate rule has more than one output (Make backend)')

# 2. `extra` files lost from the dist list after an automatic regeneration
save('C08-extra-lost-after-lazy-regen.json', project(
    [S('find', call('find_files', 'src/*.c', extra='*.h'), 'srcs'),
     S('library', call('library', 'foo', files=Raw('srcs')), 'foo')],
    {'src/a.c': src('a'), 'src/util.h': src('util.h')}),
    [['write', 'src/two.c', src('two')], ['regen']],
    'equality',
    'after an automatic (lazy-triggered) regeneration the dist file list '
    'lacks the files matched only by extra=')

# 3. removing a watched directory that changes no result: endless loop
save('C08-removed-dir-livelock.json', project(
    [S('find', call('find_files', 'src/**/*.c'), 'srcs'),
     S('library', call('library', 'foo', files=Raw('srcs')), 'foo')],
    {'src/a.c': src('a')}, ['src/empty']),
    [['build'], ['remove', 'src/empty'], ['regen']],
    'termination',
    'rmdir of a watched, irrelevant directory makes make re-run '
    '`bfg9000 regenerate --lazy` forever')

# 4. new directory is not watched after a lazy skip
save('C08-new-dir-not-watched.json', project(
    [S('find', call('find_files', 'src/**/*.c'), 'srcs'),
     S('library', call('library', 'foo', files=Raw('srcs')), 'foo')],
    {'src/a.c': src('a')}),
    [['build'], ['mkdir', 'src/newdir'], ['regen'],
     ['write', 'src/newdir/y.c', src('y')], ['regen']],
    'equality',
    'a directory created under a ** search is not added to the watched '
    'directories by the lazy skip; files created in it later are missed')
print('written to', OUT)
