#!/venv/bin/python
"""Hand-made pinned replays for C10 (crash points that left silently stale
build files on the tree before the corresponding fix: commits)."""
import json
import os
import sys
sys.path.insert(0, os.path.dirname(os.path.dirname(os.path.abspath(__file__))))
from bfgsim import gen as G

OUT = os.path.join(os.path.dirname(os.path.dirname(os.path.abspath(__file__))),
                   'replays', 'pinned')


def cfg(bufsize=4096):
    return {'clock_mode': 'strict', 'bufsize': bufsize, 'launch_limit': 3,
            'backend': 'make', 'seed': 0}


def project(stmts, files, dirs=()):
    p = G.Project()
    p.scripts['build.bfg'] = stmts
    p.files = dict(files)
    p.dirs = list(dirs)
    return p


def save(name, proj, ops, oracle, note, bufsize=4096):
    rep = {'property': 'C10', 'seed': 0, 'project': proj.to_json(),
           'cfg': cfg(bufsize), 'ops': ops, 'note': note,
           'violation': {'property': 'C10', 'oracle': oracle,
                         'features': []}}
    with open(os.path.join(OUT, name), 'w') as f:
        json.dump(rep, f, indent=1, sort_keys=True)


S, call, Raw = G.Stmt, G.call, G.Raw
src = G.c_source
basic = [S('find', call('find_files', 'src/*.c'), 'srcs'),
         S('library', call('library', 'foo', files=Raw('srcs')), 'foo')]
files = {'src/a.c': src('a')}

save('C10-cache-saved-before-buildfile.json', project(basic, files),
     [['pre', 'configure'], ['pre', 'backend'],
      ['write', 'src/new.c', src('new')],
      ['victim', 'backend', {'kind': 'kill',
                             'match': ['open', 'build/Makefile*']}],
      ['attempt', 'backend']],
     'success-implies-fresh',
     'the find cache is saved before the build file is written; a kill in '
     'between makes the next lazy regeneration skip with a stale Makefile')

save('C10-torn-buildfile.json', project(basic, files),
     [['pre', 'configure'], ['pre', 'backend'],
      ['append', 'build.bfg', "alias('later', [foo])\n"],
      ['victim', 'regenerate', {'kind': 'kill', 'nth': int(sys.argv[1])
                                if len(sys.argv) > 1 else 4,
                                'match': ['write', 'build/Makefile*']}],
      ['attempt', 'backend']],
     'success-implies-fresh',
     'the build file is rewritten in place; a kill while writing it leaves a '
     'fragment that make executes with status 0', bufsize=512)

pc = [S('project', call('project', 'demo', version='1.0')),
      S('library', call('library', 'foo', files=['src/a.c']), 'foo'),
      S('install', call('install', Raw('foo'))),
      S('pkg_config', call('pkg_config', auto_fill=True))]
save('C10-torn-immediate-file.json', project(pc, files),
     [['pre', 'configure'], ['pre', 'backend'],
      ['victim', 'configure', {'kind': 'kill',
                               'match': ['write', 'build/pkgconfig/demo.pc*']}],
      ['attempt', 'backend']],
     'success-implies-fresh',
     'immediate files (.pc) are rewritten in place; after a kill the next '
     'lazy regeneration skips and leaves the truncated file')

save('C10-truncated-find-depfile.json', project(basic, files),
     [['pre', 'configure'], ['pre', 'backend'],
      ['victim', 'regenerate', {'kind': 'kill',
                                'match': ['write', 'build/.bfg_find_deps*']}],
      ['write', 'src/new.c', src('new')],
      ['attempt', 'backend']],
     'success-implies-fresh',
     '.bfg_find_deps is rewritten in place before the build file; after a '
     'kill the old Makefile includes an empty depfile and new files are '
     'never noticed')
print('written')
