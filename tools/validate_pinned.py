#!/venv/bin/python
"""tools/validate_pinned.py: every `fixed` entry of known_findings.json must
violate on the tree just before its fix commit and pass on HEAD; every `known`
entry must reproduce on HEAD.  Prints one line per entry; exit 1 on a
mismatch."""
import json, os, subprocess, sys, tempfile
V = os.path.dirname(os.path.dirname(os.path.abspath(__file__)))
k = json.load(open(os.path.join(V, 'known_findings.json')))
bad = 0
wts = {}
def tree(commit):
    if commit not in wts:
        d = tempfile.mkdtemp(prefix='vp-pin-', dir='/tmp'); os.rmdir(d)
        subprocess.run(['git', '-C', '/repo', 'worktree', 'add', '-f', d, commit + '^'],
                       capture_output=True, check=True)
        wts[commit] = d
    return wts[commit]
def viol(prop, replay, repo=None):
    env = dict(os.environ)
    if repo: env['BFGSIM_REPO'] = repo
    p = subprocess.run([os.path.join(V, 'check'), prop, '--replay', os.path.join(V, replay)],
                       capture_output=True, text=True, env=env, timeout=900)
    return sum(1 for l in p.stdout.split('\n') if l.startswith('VIOLATION'))
try:
    for f in k['findings']:
        if f['status'] == 'known':
            n = viol(f['property'], f['replay'])
            ok = n > 0
            print('{:58s} known  HEAD:{}  {}'.format(f['id'], n, 'ok' if ok else 'MISMATCH'))
        else:
            new = viol(f['property'], f['replay'])
            old = viol(f['property'], f['replay'], tree(f['commit']))
            ok = old > 0 and new == 0
            print('{:58s} fixed {} before:{} HEAD:{}  {}'.format(f['id'], f['commit'], old, new, 'ok' if ok else 'MISMATCH'))
        sys.stdout.flush()
        bad += 0 if ok else 1
finally:
    for d in wts.values():
        subprocess.run(['git', '-C', '/repo', 'worktree', 'remove', '--force', d], capture_output=True)
print('mismatches:', bad)
sys.exit(1 if bad else 0)
