#!/venv/bin/python
"""Run the repository's pinned baseline (unit tests listed in
/root/.vp/BASELINE.json) and report any stable-pass test that does not pass."""
import json
import os
import subprocess
import sys
import tempfile
import xml.etree.ElementTree as ET

base = json.load(open('/root/.vp/BASELINE.json'))
want = set(base['stable_pass'])
with tempfile.TemporaryDirectory() as d:
    xml = os.path.join(d, 'r.xml')
    env = dict(os.environ)
    env.pop('BFG9000_VERIF', None)
    subprocess.run(['/venv/bin/python', '-m', 'pytest', '-q', '-p',
                    'no:cacheprovider', '--timeout=900',
                    '--continue-on-collection-errors', '--junitxml=' + xml,
                    'test/unit'], cwd=os.environ.get('BASELINE_REPO', '/repo'), env=env,
                   stdout=subprocess.DEVNULL, stderr=subprocess.DEVNULL)
    passed = set()
    for tc in ET.parse(xml).getroot().iter('testcase'):
        if not any(c.tag in ('failure', 'error', 'skipped') for c in tc):
            passed.add('{}::{}'.format(tc.get('classname'), tc.get('name')))
missing = sorted(want - passed)
print('baseline: {} expected, {} of them passed, {} missing'.format(
    len(want), len(want & passed), len(missing)))
for m in missing[:20]:
    print('  NOT PASSING:', m)
sys.exit(1 if missing else 0)
