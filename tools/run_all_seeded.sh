#!/bin/sh
# tools/run_all_seeded.sh [budget_s]: regression test of the harness itself -
# every seeded change under seeded/ that meta.json records as detected must be
# reported by the check named there (breaks_property), within the quick tier.
# Entries recorded as not detected ("no ...") or as found by the thorough tier
# only are listed and not counted.
budget=${1:-60}
cd "$(dirname "$0")/.."
miss=0
for d in seeded/*/; do
  id=$(basename "$d")
  prop=$(/venv/bin/python -c "import json;print(json.load(open('$d/meta.json'))['breaks_property'])")
  det=$(/venv/bin/python -c "import json;print(json.load(open('$d/meta.json')).get('detected',''))")
  case "$det" in
    no*) echo "$id $prop recorded-as-not-detected"; continue;;
    thorough*) echo "$id $prop recorded-as-thorough-only"; continue;;
  esac
  base=$(/venv/bin/python -c "import json,re;m=json.load(open('$d/meta.json'));x=re.search(r'base ([0-9a-f]{7})', m.get('detected',''));print(x.group(1) if x else 'HEAD')")
  out=$(SEEDED_BASE=$base tools/try_seeded.sh "$d/patch.diff" "$prop" "$budget" 2>&1)
  if echo "$out" | grep -q "^VIOLATION property=$prop"; then r=detected; else r=MISSED; miss=$((miss+1)); fi
  echo "$id $prop $r"
done
echo "missed: $miss"
[ $miss -eq 0 ]
