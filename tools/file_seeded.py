#!/venv/bin/python
"""tools/file_seeded.py <src dir> <id> <PROP> <needs> <detected: yes|no|n/a> <by> 
Copies a confirmed seeded change into /verif/seeded/<id>/ with meta.json."""
import json, os, shutil, sys
src, sid, prop, needs, detected, by = sys.argv[1:7]
dst = os.path.join(os.path.dirname(os.path.dirname(os.path.abspath(__file__))), 'seeded', sid)
os.makedirs(dst, exist_ok=True)
for n in os.listdir(src):
    if n in ('patch.diff', 'demo.py', 'demo.sh', 'README.md'):
        shutil.copy2(os.path.join(src, n), os.path.join(dst, n))
meta = {
    'id': sid, 'breaks_property': prop, 'needs_to_manifest': needs,
    'written_by': 'independent sub-agent given only the property text and a scratch worktree',
    'confirmed': 'tools/confirm_seeded.sh: demo exits 0 on the unchanged tree, patch applies to HEAD, the 1223-test baseline passes with the change, demo exits non-zero with the change',
    'checked_with': 'tools/try_seeded.sh seeded/%s/patch.diff %s' % (sid, prop),
    'detected': detected, 'detected_by': by,
}
with open(os.path.join(dst, 'meta.json'), 'w') as f:
    json.dump(meta, f, indent=1)
print('filed', dst)
