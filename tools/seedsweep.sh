#!/bin/sh
# tools/seedsweep.sh <first> <last> [jobs]: quick tier of every check for a
# range of VERIF_SEED values; prints one line per run, non-zero if any alarm.
first=${1:-100}; last=${2:-109}; jobs=${3:-4}
cd "$(dirname "$0")/.."
rc=0
s=$first
while [ $s -le $last ]; do
  for p in C03 C05 C07 C08 C09 C10 C13 C20; do
    out=$(BFGSIM_JOBS=$jobs VERIF_SEED=$s ./check $p --tier quick 2>&1)
    r=$?
    echo "seed=$s $p exit=$r $(echo "$out" | grep "^$p:" | cut -c1-160)"
    if [ $r -ne 0 ]; then rc=1; echo "$out" | grep -A3 "^VIOLATION\|HARNESS" | head -12; fi
  done
  s=$((s+1))
done
exit $rc
