#!/bin/sh
# tools/determinism.sh <PROP> <n>: n case seeds, three passes in fresh
# interpreters (hash seed 0 / 16 workers, hash seed 12345 / 3 workers, hash
# seed 7 / 1 worker); the behaviour digests must agree pairwise.
p=$1; n=${2:-32}
cd "$(dirname "$0")/.."
seeds=$(/venv/bin/python - "$p" "$n" <<'PY'
import sys
sys.path.insert(0, '.')
from bfgsim.check import derive_seed
print(','.join(str(derive_seed(424242, sys.argv[1], i)) for i in range(int(sys.argv[2]))))
PY
)
run() { BFGSIM_HASHSEED_FREE=1 PYTHONHASHSEED=$1 BFGSIM_JOBS=$2 PYTHONDONTWRITEBYTECODE=1 /venv/bin/python -m bfgsim.check $p --digests "$seeds" 2>/dev/null | grep '^DIGESTS ' ; }
a=$(run 0 16); b=$(run 12345 3); c=$(run 7 1)
/venv/bin/python - "$p" <<PY
import json, sys
a = json.loads('''$a'''[8:]); b = json.loads('''$b'''[8:]); c = json.loads('''$c'''[8:])
bad = [k for k in a if not (a[k] == b.get(k) == c.get(k))]
harness = [k for k in a if str(a[k]).startswith('harness')]
print('%s determinism: %d seeds x 3 passes, %d mismatches, %d harness errors' % (sys.argv[1], len(a), len(bad), len(harness)))
for k in bad[:5]:
    print('  seed', k, a[k], b.get(k), c.get(k))
sys.exit(1 if bad or harness else 0)
PY
