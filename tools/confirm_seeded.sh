#!/bin/sh
# tools/confirm_seeded.sh <dir with patch.diff + demo.(sh|py)> 
# Confirms a seeded change independently: the demo passes on the unchanged
# tree, the patch applies, the pinned unit-test baseline still passes with it,
# and the demo fails with it.  Prints one line per fact; exit 0 iff all hold.
d=$(readlink -f "$1")
wt=$(mktemp -d /tmp/seeded-confirm-XXXXXX); rmdir "$wt"
git -C /repo worktree add -f "$wt" ${SEEDED_BASE:-HEAD} >/dev/null 2>&1
trap 'git -C /repo worktree remove --force "$wt" >/dev/null 2>&1 || rm -rf "$wt"' EXIT
if [ -f "$d/demo.py" ]; then demo="/venv/bin/python $d/demo.py"; else demo="bash $d/demo.sh"; fi
ok=0
PATH=/venv/bin:$PATH timeout 600 $demo "$wt" >"$wt.clean.log" 2>&1; r0=$?
echo "demo on unchanged tree: exit $r0 (want 0)"; [ $r0 -eq 0 ] || ok=1
git -C "$wt" apply "$d/patch.diff" || { echo "patch does not apply"; exit 1; }
BASELINE_REPO="$wt" "$(dirname "$0")/baseline.py"; rb=$?
echo "baseline with change: exit $rb (want 0)"; [ $rb -eq 0 ] || ok=1
PATH=/venv/bin:$PATH timeout 600 $demo "$wt" >"$wt.mut.log" 2>&1; r1=$?
echo "demo with change: exit $r1 (want non-zero)"; [ $r1 -ne 0 ] || ok=1
tail -3 "$wt.mut.log" | cut -c1-200
rm -f "$wt.clean.log" "$wt.mut.log"
exit $ok
