#!/bin/sh
# tools/soak.sh <seed> [jobs]: every check, thorough tier, one after the other.
seed=${1:-1000}; jobs=${2:-6}
cd "$(dirname "$0")/.."
rc=0
for p in C03 C05 C07 C08 C09 C10 C13 C20; do
  echo "===== $p"
  BFGSIM_JOBS=$jobs VERIF_SEED=$seed ./check $p --tier thorough | grep -v "^  " | tail -8
  r=$?; [ $r -eq 0 ] || rc=1
done
exit $rc
