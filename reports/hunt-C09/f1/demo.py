#!/usr/bin/env python3
"""f1: the default Python runner is taken from the process that happens to
regenerate (sys.executable), not from the saved configuration.

usage: demo.py /path/to/bfg9000-source-tree
exit 0 = property holds, 1 = violated, 2 = could not run the experiment
"""
import difflib
import os
import shutil
import subprocess
import sys
import tempfile

tree = os.path.abspath(sys.argv[1])


def usable(py):
    r = subprocess.run([py, '-c', 'import bfg9000.driver'],
                       env=dict(os.environ, PYTHONPATH=tree),
                       stdout=subprocess.DEVNULL, stderr=subprocess.DEVNULL)
    return r.returncode == 0


def pick_interpreters():
    # Two different *names* of one and the same interpreter (python3 /
    # python3.12 / python in the same bin directory).  Nothing about the
    # interpreter differs except the spelling of sys.executable.
    cands = [sys.executable, '/venv/bin/python3', '/venv/bin/python']
    for base in cands:
        if not (os.path.exists(base) and usable(base)):
            continue
        d = os.path.dirname(base)
        for n in sorted(os.listdir(d)):
            alt = os.path.join(d, n)
            if (n.startswith('python') and not n.endswith('-config') and
                    alt != base and os.path.realpath(alt) ==
                    os.path.realpath(base) and usable(alt)):
                return base, alt
    return None, None


RUN = ('import sys; sys.argv[0] = {argv0!r}; '
       'from bfg9000.driver import main; sys.exit(main())')


def bfg(py, argv0, args, cwd, env):
    return subprocess.run([py, '-c', RUN.format(argv0=argv0)] + args,
                          cwd=cwd, env=env, stdout=subprocess.PIPE,
                          stderr=subprocess.STDOUT, universal_newlines=True)


def main():
    py1, py2 = pick_interpreters()
    if not py1:
        print('cannot find two names for one interpreter that can import '
              'bfg9000; skipping')
        return 2

    tmp = tempfile.mkdtemp(prefix='c09-f1-', dir='/tmp')
    try:
        src, bld = os.path.join(tmp, 'src'), os.path.join(tmp, 'build')
        os.makedirs(src)
        with open(os.path.join(src, 'build.bfg'), 'w') as f:
            f.write("project('p')\n"
                    "build_step('gen.txt', cmd=[source_file('gen.py'), "
                    "'gen.txt'])\n")
        with open(os.path.join(src, 'gen.py'), 'w') as f:
            f.write("import sys; open(sys.argv[1], 'w').write('x')\n")

        env = {k: v for k, v in os.environ.items() if k != 'PYTHON'}
        env['PYTHONPATH'] = tree
        argv0 = os.path.join(tmp, 'bin', 'bfg9000')   # becomes env.bfgdir
        os.makedirs(os.path.dirname(argv0))

        r = bfg(py1, argv0, ['configure', bld, '--backend=make',
                             '--no-resolve-packages',
                             '--prefix=' + os.path.join(tmp, 'inst')],
                src, env)
        if r.returncode:
            print(r.stdout)
            return 2
        with open(os.path.join(bld, 'Makefile')) as f:
            fresh = f.read()

        # control: regenerating with the *same* interpreter changes nothing
        r = bfg(py1, argv0, ['regenerate', bld], tmp, env)
        with open(os.path.join(bld, 'Makefile')) as f:
            same = f.read()
        if r.returncode or same != fresh:
            print('control failed (regenerate with the same interpreter):')
            print(r.stdout)
            return 2

        # the experiment: same saved configuration, same bfg9000 sources,
        # other spelling of the interpreter on the later command line
        r = bfg(py2, argv0, ['regenerate', bld], tmp, env)
        with open(os.path.join(bld, 'Makefile')) as f:
            regen = f.read()
        if r.returncode:
            print(r.stdout)
            return 2

        if regen != fresh:
            print('VIOLATION: `regenerate` (exit status 0) produced a '
                  'different Makefile than the configure it is supposed to '
                  'reproduce;')
            print('configured with %s, regenerated with %s' % (py1, py2))
            sys.stdout.writelines(difflib.unified_diff(
                fresh.splitlines(True), regen.splitlines(True),
                'Makefile (configure)', 'Makefile (regenerate)', n=0))
            return 1
        print('ok: regenerated Makefile identical')
        return 0
    finally:
        shutil.rmtree(tmp, ignore_errors=True)


if __name__ == '__main__':
    sys.exit(main())
