#!/usr/bin/env python3
"""f3: `mopack-options.yml` (the record of the variable changes, the target
platform and the toolchain that bfg9000 hands to mopack) is written by
`configure` only.  After a regeneration that re-runs an edited toolchain file
the saved configuration (`.bfg_environ`, `bfg9000 env`) has the new variables,
but the recorded changes in mopack-options.yml - which the build file has just
fed to `mopack resolve` again - are still the old ones:
initial + recorded changes != current.

A recording stub stands in for mopack (the real one needs the network).

usage: demo.py /path/to/bfg9000-source-tree
exit 0 = property holds, 1 = violated, 2 = could not run the experiment
"""
import json
import os
import shutil
import stat
import subprocess
import sys
import tempfile
import time

tree = os.path.abspath(sys.argv[1])
python = sys.executable
if subprocess.run([python, '-c', 'import bfg9000.driver, yaml'],
                  env=dict(os.environ, PYTHONPATH=tree),
                  stderr=subprocess.DEVNULL).returncode:
    python = '/venv/bin/python'


def script(path, text):
    with open(path, 'w') as f:
        f.write(text)
    os.chmod(path, os.stat(path).st_mode | stat.S_IXUSR)


def load_yaml(path):
    out = subprocess.run(
        [python, '-c', 'import sys, json, yaml; '
         'print(json.dumps(yaml.safe_load(open(sys.argv[1]))))', path],
        stdout=subprocess.PIPE, universal_newlines=True, check=True).stdout
    return json.loads(out)


def main():
    tmp = tempfile.mkdtemp(prefix='c09-f3-', dir='/tmp')
    try:
        src, bld = os.path.join(tmp, 'src'), os.path.join(tmp, 'build')
        log = os.path.join(tmp, 'mopack.log')
        os.makedirs(src)
        with open(os.path.join(src, 'build.bfg'), 'w') as f:
            f.write("project('p')\ncommand('nothing', cmds=[['true']])\n")
        with open(os.path.join(src, 'mopack.yml'), 'w') as f:
            f.write('packages: {}\n')
        toolchain = os.path.join(src, 'toolchain.bfg')
        with open(toolchain, 'w') as f:
            f.write("environ['DEMO_SYSROOT'] = '/opt/sdk-1'\n")

        bfg = os.path.join(tmp, 'bfg9000')
        script(bfg, '#!/bin/sh\nPYTHONPATH={} exec {} -c "import sys; '
               'sys.argv[0] = \'{}\'; from bfg9000.driver import main; '
               'sys.exit(main())" "$@"\n'.format(tree, python, bfg))
        mopack = os.path.join(tmp, 'mopack')
        # Like the real thing, `list-files` reports the configuration files
        # that `resolve` was given (the source dir's mopack.yml and the
        # options file bfg9000 generated in the build dir).
        script(mopack, '''#!/bin/sh
printf '%s\\n' "$*" >> {log}
case "$1" in
  resolve) mkdir -p {bld}/mopack && echo '{{}}' > {bld}/mopack/mopack.json
           cp {bld}/mopack-options.yml {tmp}/options-seen-by-last-resolve.yml ;;
  list-files) echo '["{src}/mopack.yml", "{bld}/mopack-options.yml"]' ;;
esac
'''.format(log=log, src=src, bld=bld, tmp=tmp))

        env = dict(os.environ, BFG9000=bfg, MOPACK=mopack)
        env.pop('MOPACK_NESTED_INVOCATION', None)
        env.pop('DEMO_SYSROOT', None)
        r = subprocess.run(
            [bfg, 'configure', bld, '--backend=make',
             '--prefix=' + os.path.join(tmp, 'inst'),
             '--toolchain', toolchain],
            cwd=src, env=env, stdout=subprocess.PIPE,
            stderr=subprocess.STDOUT, universal_newlines=True)
        if r.returncode:
            print(r.stdout)
            return 2

        # Later: the toolchain file is edited; the build tool re-resolves the
        # packages and regenerates (both rules depend on the toolchain file).
        time.sleep(1.2)
        with open(toolchain, 'w') as f:
            f.write("environ['DEMO_SYSROOT'] = '/opt/sdk-2'\n")
        r = subprocess.run(['make', '-C', bld, 'nothing'],
                           env={'PATH': os.environ['PATH']},
                           stdout=subprocess.PIPE, stderr=subprocess.STDOUT,
                           universal_newlines=True)
        if r.returncode:
            print(r.stdout)
            return 2
        with open(log) as f:
            n = sum(1 for i in f if i.startswith('resolve'))
        if n < 2:
            print('expected the build to re-resolve; resolve calls:', n)
            print(r.stdout)
            return 2

        with open(os.path.join(bld, '.bfg_environ')) as f:
            variables = json.load(f)['data']['variables']
        initial, current = variables['initial'], variables['current']
        recorded = load_yaml(os.path.join(bld, 'mopack-options.yml'))
        seen = load_yaml(os.path.join(tmp, 'options-seen-by-last-resolve.yml'))
        changes = recorded['options'].get('env', {})

        applied = dict(initial)
        for k, v in changes.items():
            if v is None:
                applied.pop(k, None)
            else:
                applied[k] = v

        seen_env = seen['options'].get('env', {})
        if applied != current or seen_env != changes:
            print('VIOLATION: recorded changes applied to the initial '
                  'variables do not give the current variables')
            print('  saved configuration  : DEMO_SYSROOT =',
                  current.get('DEMO_SYSROOT'))
            print('  mopack-options.yml   : env =', changes)
            print('  options file read by the re-resolution that make just '
                  'ran: env =', seen['options'].get('env'))
            return 1
        print('ok: mopack-options.yml matches the saved configuration')
        return 0
    finally:
        shutil.rmtree(tmp, ignore_errors=True)


if __name__ == '__main__':
    sys.exit(main())
