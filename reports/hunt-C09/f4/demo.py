#!/usr/bin/env python3
"""f4: a lazy regeneration that decides "nothing changed" (and leaves the build
files alone) has already re-run the toolchain file and overwritten the saved
configuration with the result.  From then on `bfg9000 env` / `bfg9000 run`
hand out variables that are neither what configure chose nor what the build
files use.

usage: demo.py /path/to/bfg9000-source-tree
exit 0 = property holds, 1 = violated, 2 = could not run the experiment
"""
import os
import re
import shutil
import stat
import subprocess
import sys
import tempfile
import time

tree = os.path.abspath(sys.argv[1])
python = sys.executable
if subprocess.run([python, '-c', 'import bfg9000.driver'],
                  env=dict(os.environ, PYTHONPATH=tree),
                  stderr=subprocess.DEVNULL).returncode:
    python = '/venv/bin/python'


def script(path, text):
    with open(path, 'w') as f:
        f.write(text)
    os.chmod(path, os.stat(path).st_mode | stat.S_IXUSR)


def run(*args, **kwargs):
    return subprocess.run(*args, stdout=subprocess.PIPE,
                          stderr=subprocess.STDOUT, universal_newlines=True,
                          **kwargs)


def main():
    tmp = tempfile.mkdtemp(prefix='c09-f4-', dir='/tmp')
    try:
        src, bld = os.path.join(tmp, 'src'), os.path.join(tmp, 'build')
        tools = os.path.join(tmp, 'tools')
        os.makedirs(os.path.join(src, 'sub'))
        os.makedirs(tools)
        with open(os.path.join(src, 'build.bfg'), 'w') as f:
            f.write("project('p')\n"
                    "executable('e', files=find_files('sub/*.c') + ['e.c'])\n")
        with open(os.path.join(src, 'e.c'), 'w') as f:
            f.write('int main(void) { return 0; }\n')
        toolchain = os.path.join(src, 'toolchain.bfg')
        with open(toolchain, 'w') as f:
            # the documented idiom: first candidate that exists wins
            f.write("compiler(['mycc', 'gcc'], 'c')\n")

        bfg = os.path.join(tmp, 'bfg9000')
        script(bfg, '#!/bin/sh\nPYTHONPATH={} exec {} -c "import sys; '
               'sys.argv[0] = \'{}\'; from bfg9000.driver import main; '
               'sys.exit(main())" "$@"\n'.format(tree, python, bfg))

        env = dict(os.environ, BFG9000=bfg,
                   PATH=tools + os.pathsep + os.environ['PATH'])
        env.pop('CC', None)
        r = run([bfg, 'configure', bld, '--backend=make',
                 '--no-resolve-packages', '--toolchain', toolchain,
                 '--prefix=' + os.path.join(tmp, 'inst')], cwd=src, env=env)
        if r.returncode:
            print(r.stdout)
            return 2

        def makefile_cc():
            with open(os.path.join(bld, 'Makefile')) as f:
                return re.search(r'^CC := (.*)$', f.read(), re.M).group(1)

        def saved_cc():
            out = run([bfg, 'env', bld], env={'PATH': os.environ['PATH']})
            return re.search(r'^CC=(.*)$', out.stdout, re.M).group(1)

        before = (makefile_cc(), saved_cc())
        if before != ('gcc', 'gcc'):
            print('unexpected state after configure:', before)
            return 2

        # Later: `mycc` shows up on the (saved) PATH, and - unrelated - an
        # empty directory is created below a directory find_files() looked
        # into, which makes the build tool run `bfg9000 regenerate --lazy`.
        time.sleep(1.2)
        os.symlink(shutil.which('gcc'), os.path.join(tools, 'mycc'))
        os.mkdir(os.path.join(src, 'sub', 'newdir'))
        with open(os.path.join(bld, 'Makefile'), 'rb') as f:
            makefile_before = f.read()
        # (only the build file itself is brought up to date; nothing is compiled)
        r = run(['make', '-C', bld, 'Makefile'],
                env={'PATH': os.environ['PATH']})
        if r.returncode or 'regenerate --lazy' not in r.stdout:
            print('make did not run the lazy regeneration:\n' + r.stdout)
            return 2
        with open(os.path.join(bld, 'Makefile'), 'rb') as f:
            skipped = f.read() == makefile_before

        after = (makefile_cc(), saved_cc())
        # Either outcome is coherent: nothing changes (gcc, gcc), or the build
        # files are regenerated for the newly found compiler (mycc, mycc).
        if after[0] != after[1]:
            print('VIOLATION: after `bfg9000 regenerate --lazy` (exit status '
                  '0, build files {}):'.format(
                      'left untouched' if skipped else 'rewritten'))
            print('  configure chose           CC =', before[0])
            print('  Makefile compiles with    CC =', after[0])
            print('  `bfg9000 env` now reports CC =', after[1])
            return 1
        print('ok: saved configuration and build files agree:', after)
        return 0
    finally:
        shutil.rmtree(tmp, ignore_errors=True)


if __name__ == '__main__':
    sys.exit(main())
