#!/usr/bin/env python3
"""f2: package flags / package files given to `configure` (-P/--package-flag)
are not part of the saved configuration, so the dependency re-resolution that
the generated build file performs later runs `mopack resolve` with other
arguments than configure did.

A recording stub stands in for mopack (the real one needs the network); only
the *arguments bfg9000 passes to it* are compared.

usage: demo.py /path/to/bfg9000-source-tree
exit 0 = property holds, 1 = violated, 2 = could not run the experiment
"""
import json
import os
import shutil
import stat
import subprocess
import sys
import tempfile
import time

tree = os.path.abspath(sys.argv[1])
python = sys.executable
if subprocess.run([python, '-c', 'import bfg9000.driver'],
                  env=dict(os.environ, PYTHONPATH=tree),
                  stderr=subprocess.DEVNULL).returncode:
    python = '/venv/bin/python'


def script(path, text):
    with open(path, 'w') as f:
        f.write(text)
    os.chmod(path, os.stat(path).st_mode | stat.S_IXUSR)


def main():
    tmp = tempfile.mkdtemp(prefix='c09-f2-', dir='/tmp')
    try:
        src, bld = os.path.join(tmp, 'src'), os.path.join(tmp, 'build')
        log = os.path.join(tmp, 'mopack.log')
        os.makedirs(src)
        with open(os.path.join(src, 'build.bfg'), 'w') as f:
            f.write("project('p')\ncommand('nothing', cmds=[['true']])\n")
        with open(os.path.join(src, 'mopack.yml'), 'w') as f:
            f.write('packages: {}\n')

        bfg = os.path.join(tmp, 'bfg9000')
        script(bfg, '#!/bin/sh\nPYTHONPATH={} exec {} -c "import sys; '
               'sys.argv[0] = \'{}\'; from bfg9000.driver import main; '
               'sys.exit(main())" "$@"\n'.format(tree, python, bfg))
        mopack = os.path.join(tmp, 'mopack')
        script(mopack, '''#!/bin/sh
# minimal stand-in for mopack: record the command line, keep the metadata
# file fresh, list the configuration files
printf '%s\\n' "$*" >> {log}
case "$1" in
  resolve) mkdir -p {bld}/mopack && echo '{{}}' > {bld}/mopack/mopack.json ;;
  list-files) echo '["{src}/mopack.yml"]' ;;
esac
'''.format(log=log, src=src, bld=bld))

        env = dict(os.environ, BFG9000=bfg, MOPACK=mopack)
        env.pop('MOPACK_NESTED_INVOCATION', None)
        r = subprocess.run(
            [bfg, 'configure', bld, '--backend=make',
             '--prefix=' + os.path.join(tmp, 'inst'),
             '-P--strict', '-P-ofoo=bar'],
            cwd=src, env=env, stdout=subprocess.PIPE,
            stderr=subprocess.STDOUT, universal_newlines=True)
        if r.returncode:
            print(r.stdout)
            return 2

        # Later: mopack.yml is edited, the build tool re-resolves.
        time.sleep(1.2)
        os.utime(os.path.join(src, 'mopack.yml'), None)
        r = subprocess.run(['make', '-C', bld, 'nothing'],
                           env={'PATH': os.environ['PATH']},
                           stdout=subprocess.PIPE, stderr=subprocess.STDOUT,
                           universal_newlines=True)
        if r.returncode:
            print(r.stdout)
            return 2

        with open(log) as f:
            resolves = [i.split() for i in f.read().splitlines()
                        if i.startswith('resolve')]
        if len(resolves) != 2:
            print('expected two resolve calls, got', resolves)
            return 2

        def flags(argv):
            # everything between `resolve` and `--`, without the directory
            # (spelled absolute by configure, `.` by the build file)
            a = argv[1:argv.index('--')]
            if '--directory' in a:
                i = a.index('--directory')
                del a[i:i + 2]
            return a

        first, second = flags(resolves[0]), flags(resolves[1])
        if first != second:
            print('VIOLATION: the re-resolution run by the generated build '
                  'file does not repeat what configure chose:')
            print('  configure : mopack', ' '.join(resolves[0]))
            print('  make      : mopack', ' '.join(resolves[1]))
            print('  flags lost:', [i for i in first if i not in second])
            with open(os.path.join(bld, '.bfg_environ')) as f:
                saved = json.dumps(json.load(f)['data'])
            print('  "--strict" anywhere in .bfg_environ:',
                  '--strict' in saved)
            return 1
        print('ok: same resolve flags')
        return 0
    finally:
        shutil.rmtree(tmp, ignore_errors=True)


if __name__ == '__main__':
    sys.exit(main())
