#!/usr/bin/env python3
"""f5 (low severity): install directories set by a toolchain file's
`install_dirs()` are saved as non-directory paths and come back as directory
paths; load + save is not the identity, `.bfg_environ` changes on the first
regeneration although nothing else did.

usage: demo.py /path/to/bfg9000-source-tree
exit 0 = property holds, 1 = violated, 2 = could not run the experiment
"""
import json
import os
import shutil
import subprocess
import sys
import tempfile

tree = os.path.abspath(sys.argv[1])
python = sys.executable
if subprocess.run([python, '-c', 'import bfg9000.driver'],
                  env=dict(os.environ, PYTHONPATH=tree),
                  stderr=subprocess.DEVNULL).returncode:
    python = '/venv/bin/python'

RUN = ('import sys; sys.argv[0] = {!r}; '
       'from bfg9000.driver import main; sys.exit(main())')


def main():
    tmp = tempfile.mkdtemp(prefix='c09-f5-', dir='/tmp')
    try:
        src, bld = os.path.join(tmp, 'src'), os.path.join(tmp, 'build')
        os.makedirs(src)
        with open(os.path.join(src, 'build.bfg'), 'w') as f:
            f.write("project('p')\ncommand('nothing', cmds=[['true']])\n")
        toolchain = os.path.join(src, 'toolchain.bfg')
        with open(toolchain, 'w') as f:
            f.write("install_dirs(prefix={!r}, "
                    "bindir=Path('tools', InstallRoot.prefix))\n"
                    .format(os.path.join(tmp, 'inst')))

        env = dict(os.environ, PYTHONPATH=tree)
        argv0 = os.path.join(tmp, 'bin', 'bfg9000')

        def bfg(*args, cwd):
            return subprocess.run([python, '-c', RUN.format(argv0)] +
                                  list(args), cwd=cwd, env=env,
                                  stdout=subprocess.PIPE,
                                  stderr=subprocess.STDOUT,
                                  universal_newlines=True)

        r = bfg('configure', bld, '--backend=make', '--no-resolve-packages',
                '--toolchain', toolchain, cwd=src)
        if r.returncode:
            print(r.stdout)
            return 2

        def saved():
            with open(os.path.join(bld, '.bfg_environ')) as f:
                return json.load(f)['data']

        first = saved()
        r = bfg('regenerate', bld, cwd=tmp)
        if r.returncode:
            print(r.stdout)
            return 2
        second = saved()

        if first != second:
            print('VIOLATION: saving, reloading and saving again does not '
                  'give the same configuration (nothing was changed in '
                  'between):')
            for k in sorted(first):
                if first[k] != second[k]:
                    for kk in first[k]:
                        if first[k][kk] != second[k][kk]:
                            print('  {}.{}: {} -> {}'.format(
                                k, kk, first[k][kk], second[k][kk]))
            return 1
        print('ok: .bfg_environ unchanged by regenerate')
        return 0
    finally:
        shutil.rmtree(tmp, ignore_errors=True)


if __name__ == '__main__':
    sys.exit(main())
