#!/venv/bin/python
"""f4: a find_files() search base that is replaced by renaming directories is
not noticed: only the base directory itself is watched, and a directory keeps
its modification time when it is renamed.

usage: demo.py /path/to/bfg9000-source-tree
exit status: 0 = property holds, 1 = violated
"""
import difflib
import os
import shutil
import subprocess
import sys
import tempfile
import time

PY = '/venv/bin/python' if os.path.exists('/venv/bin/python') else sys.executable


def setup(src):
    w = tempfile.mkdtemp(prefix='c08-f4.', dir='/tmp')
    bind = os.path.join(w, 'bin')
    os.makedirs(bind)
    for name, mod in (('bfg9000', 'bfg9000.driver'),
                      ('bfg9000-depfixer', 'bfg9000.depfixer')):
        path = os.path.join(bind, name)
        with open(path, 'w') as f:
            f.write('#!/bin/sh\nPYTHONPATH={} exec {} -c "import sys; '
                    'sys.argv[0] = \'{}\'; from {} import main; '
                    'sys.exit(main())" "$@"\n'.format(src, PY, path, mod))
        os.chmod(path, 0o755)
    env = dict(os.environ, BFG9000=os.path.join(bind, 'bfg9000'),
               PYTHONHASHSEED='0',
               PATH=bind + os.pathsep + os.environ['PATH'])
    for k in ('MAKEFLAGS', 'MAKELEVEL', 'MFLAGS'):
        env.pop(k, None)
    return w, env


def run(cmd, env, cwd=None):
    r = subprocess.run(cmd, env=env, cwd=cwd, timeout=120,
                       stdout=subprocess.PIPE, stderr=subprocess.STDOUT,
                       universal_newlines=True)
    return r.returncode, r.stdout


def write(path, text):
    os.makedirs(os.path.dirname(path), exist_ok=True)
    with open(path, 'w') as f:
        f.write(text)


def scenario(src, label, pattern, populate, swap):
    w, env = setup(src)
    try:
        p, b = os.path.join(w, 'p'), os.path.join(w, 'b')
        write(os.path.join(p, 'build.bfg'),
              "project('p', version='1.0')\n"
              "executable('prog', find_files('{}'))\n".format(pattern))
        populate(p)
        conf = [env['BFG9000'], 'configure', b, '--backend=make',
                '--no-resolve-packages', '--prefix=' + os.path.join(w, 'pfx')]
        rc, out = run(conf, env, cwd=p)
        if rc != 0:
            return ['[{}] configure failed:\n{}'.format(label, out)]
        rc, out = run(['make', '-C', b], env)
        if rc != 0:
            return ['[{}] first make failed:\n{}'.format(label, out)]

        time.sleep(1.1)
        swap(p)

        rc, out = run(['make', '-C', b], env)
        auto = open(os.path.join(b, 'Makefile')).read()
        deps = open(os.path.join(b, '.bfg_find_deps')).read()
        os.rename(b, b + '.auto')
        run(conf, env, cwd=p)
        fresh = open(os.path.join(b, 'Makefile')).read()
        if auto != fresh:
            diff = [l for l in difflib.unified_diff(
                fresh.splitlines(), auto.splitlines(), 'fresh configure',
                'after make', lineterm='', n=0
            ) if 'dist-' not in l and 'DOPPEL' not in l][:12]
            return ['[{}] `make` exited {} and said:\n    {}\n  watched '
                    'directories (.bfg_find_deps):\n    {}\n  Makefile vs. '
                    'fresh configure:\n    {}'.format(
                        label, rc, out.strip().replace('\n', '\n    '),
                        deps.strip().replace('\n', '\n    '),
                        '\n    '.join(diff))]
        return []
    finally:
        shutil.rmtree(w, ignore_errors=True)


MAIN = 'int main(void) { return 0; }\n'
UTIL = 'int util(void) { return 1; }\n'


def main():
    if len(sys.argv) != 2:
        sys.exit('usage: demo.py BFG9000_SOURCE_TREE')
    src = os.path.abspath(sys.argv[1])
    problems = []

    # 1. src/ is swapped with a directory prepared earlier.
    def populate1(p):
        write(os.path.join(p, 'src', 'main.c'), MAIN)
        write(os.path.join(p, 'src-next', 'main.c'), MAIN)
        write(os.path.join(p, 'src-next', 'util.c'), UTIL)

    def swap1(p):
        os.rename(os.path.join(p, 'src'), os.path.join(p, 'src-prev'))
        os.rename(os.path.join(p, 'src-next'), os.path.join(p, 'src'))

    problems += scenario(src, 'mv src src-prev; mv src-next src',
                         'src/*.c', populate1, swap1)

    # 2. The same one level further up: the base is vendor/lib/, and vendor/
    #    is what gets renamed.
    def populate2(p):
        write(os.path.join(p, 'vendor', 'lib', 'main.c'), MAIN)
        write(os.path.join(p, 'vendor-2.0', 'lib', 'main.c'), MAIN)
        write(os.path.join(p, 'vendor-2.0', 'lib', 'util.c'), UTIL)

    def swap2(p):
        os.rename(os.path.join(p, 'vendor'), os.path.join(p, 'vendor-1.0'))
        os.rename(os.path.join(p, 'vendor-2.0'), os.path.join(p, 'vendor'))

    problems += scenario(src, 'mv vendor vendor-1.0; mv vendor-2.0 vendor',
                         'vendor/lib/**/*.c', populate2, swap2)

    if problems:
        print('PROPERTY VIOLATED')
        for i in problems:
            print('-', i)
        return 1
    print('ok: the renamed directories were noticed')
    return 0


if __name__ == '__main__':
    sys.exit(main())
