#!/venv/bin/python
"""b1 (borderline): editing target_platform() in the toolchain file changes the
target platform on regeneration, but the default installation directories stay
those of the platform that was current at configure time.

usage: demo.py /path/to/bfg9000-source-tree
exit status: 0 = property holds, 1 = violated
"""
import difflib
import os
import shutil
import subprocess
import sys
import tempfile
import time

PY = '/venv/bin/python' if os.path.exists('/venv/bin/python') else sys.executable


def setup(src):
    w = tempfile.mkdtemp(prefix='c08-b1.', dir='/tmp')
    bind = os.path.join(w, 'bin')
    os.makedirs(bind)
    for name, mod in (('bfg9000', 'bfg9000.driver'),
                      ('bfg9000-depfixer', 'bfg9000.depfixer')):
        path = os.path.join(bind, name)
        with open(path, 'w') as f:
            f.write('#!/bin/sh\nPYTHONPATH={} exec {} -c "import sys; '
                    'sys.argv[0] = \'{}\'; from {} import main; '
                    'sys.exit(main())" "$@"\n'.format(src, PY, path, mod))
        os.chmod(path, 0o755)
    env = dict(os.environ, BFG9000=os.path.join(bind, 'bfg9000'),
               PYTHONHASHSEED='0',
               PATH=bind + os.pathsep + os.environ['PATH'])
    for k in ('MAKEFLAGS', 'MAKELEVEL', 'MFLAGS'):
        env.pop(k, None)
    return w, env


def run(cmd, env, cwd=None):
    r = subprocess.run(cmd, env=env, cwd=cwd, timeout=120,
                       stdout=subprocess.PIPE, stderr=subprocess.STDOUT,
                       universal_newlines=True)
    return r.returncode, r.stdout


def main():
    if len(sys.argv) != 2:
        sys.exit('usage: demo.py BFG9000_SOURCE_TREE')
    src = os.path.abspath(sys.argv[1])
    w, env = setup(src)
    try:
        p, b = os.path.join(w, 'p'), os.path.join(w, 'b')
        os.makedirs(os.path.join(p, 'src'))
        with open(os.path.join(p, 'build.bfg'), 'w') as f:
            f.write("project('p', version='1.0')\n"
                    "install(executable('prog', find_files('src/*.c')))\n")
        with open(os.path.join(p, 'src', 'main.c'), 'w') as f:
            f.write('int main(void) { return 0; }\n')
        with open(os.path.join(p, 'tc.bfg'), 'w') as f:
            f.write("environ['CFLAGS'] = '-O1'\n")
        conf = [env['BFG9000'], 'configure', b, '--backend=make',
                '--no-resolve-packages', '--toolchain', 'tc.bfg',
                '--prefix=' + os.path.join(w, 'pfx')]
        rc, out = run(conf, env, cwd=p)
        if rc != 0:
            print('configure failed:\n' + out)
            return 2
        run(['make', '-C', b], env)

        time.sleep(1.1)
        with open(os.path.join(p, 'tc.bfg'), 'w') as f:
            f.write("environ['CFLAGS'] = '-O1'\n"
                    "target_platform('winnt', 'x86_64')\n")
        rc, out = run(['make', '-C', b], env)
        auto = open(os.path.join(b, 'Makefile')).read()

        os.rename(b, b + '.auto')
        run(conf, env, cwd=p)
        fresh = open(os.path.join(b, 'Makefile')).read()
        if auto != fresh:
            print('PROPERTY VIOLATED: Makefile after automatic regeneration '
                  'differs from a fresh configure (make exit {}):'.format(rc))
            for l in difflib.unified_diff(fresh.splitlines(),
                                          auto.splitlines(), 'fresh',
                                          'automatic', lineterm=''):
                print('   ', l)
            return 1
        print('ok')
        return 0
    finally:
        shutil.rmtree(w, ignore_errors=True)


if __name__ == '__main__':
    sys.exit(main())
