#!/venv/bin/python
"""f1: a searched directory whose name contains '=' or '(' ... ')' defeats the Make backend's watch list (.bfg_find_deps).

usage: demo.py /path/to/bfg9000-source-tree
exit status: 0 = property holds, 1 = violated
"""
import os
import shutil
import subprocess
import sys
import tempfile
import time

PY = '/venv/bin/python' if os.path.exists('/venv/bin/python') else sys.executable


def setup(src):
    w = tempfile.mkdtemp(prefix='c08-f1.', dir='/tmp')
    bind = os.path.join(w, 'bin')
    os.makedirs(bind)
    for name, mod in (('bfg9000', 'from bfg9000.driver import main'),
                      ('bfg9000-depfixer',
                       'from bfg9000.depfixer import main')):
        path = os.path.join(bind, name)
        with open(path, 'w') as f:
            f.write('#!/bin/sh\nPYTHONPATH={} exec {} -c "import sys; '
                    'sys.argv[0] = \'{}\'; {}; sys.exit(main())" "$@"\n'
                    .format(src, PY, path, mod))
        os.chmod(path, 0o755)
    env = dict(os.environ, BFG9000=os.path.join(bind, 'bfg9000'),
               PYTHONHASHSEED='0',
               PATH=bind + os.pathsep + os.environ['PATH'])
    for k in ('MAKEFLAGS', 'MAKELEVEL', 'MFLAGS'):
        env.pop(k, None)
    return w, env


def run(cmd, env, cwd=None, timeout=60):
    try:
        r = subprocess.run(cmd, env=env, cwd=cwd, timeout=timeout,
                           stdout=subprocess.PIPE, stderr=subprocess.STDOUT,
                           universal_newlines=True)
        return r.returncode, r.stdout
    except subprocess.TimeoutExpired as e:
        out = e.stdout or ''
        if isinstance(out, bytes):
            out = out.decode(errors='replace')
        return 'timeout', out


BUILD_BFG = """
project('p', version='1.0')
data = find_files('{pattern}')
command('show', cmds=[['echo', 'FILES:'] + data])
"""


def scenario(src, dirname, pattern, label):
    """Configure, build, add a file to the oddly named directory, build again.
    Returns a list of problems."""
    problems = []
    w, env = setup(src)
    try:
        p, b = os.path.join(w, 'p'), os.path.join(w, 'b')
        os.makedirs(os.path.join(p, 'data', dirname))
        with open(os.path.join(p, 'data', dirname, 'one.txt'), 'w') as f:
            f.write('1\n')
        with open(os.path.join(p, 'build.bfg'), 'w') as f:
            f.write(BUILD_BFG.format(pattern=pattern))

        rc, out = run([env['BFG9000'], 'configure', b, '--backend=make',
                       '--no-resolve-packages',
                       '--prefix=' + os.path.join(w, 'pfx')], env, cwd=p)
        if rc != 0:
            return ['{}: configure failed:\n{}'.format(label, out)]

        rc, out = run(['make', '-C', b, 'show'], env, timeout=30)
        n = out.count('regenerate --lazy')
        if rc == 'timeout' or n > 2:
            problems.append(
                '{}: the very first `make` never converges: the regenerate '
                'step ran {} times in 30 s and was still running'
                .format(label, n))
            return problems
        if rc != 0:
            problems.append('{}: first make failed:\n{}'.format(label, out))
            return problems

        time.sleep(1.1)
        with open(os.path.join(p, 'data', dirname, 'two.txt'), 'w') as f:
            f.write('2\n')

        rc, out = run(['make', '-C', b, 'show'], env, timeout=30)
        if rc == 'timeout':
            problems.append('{}: make does not terminate after adding a file'
                            .format(label))
            return problems
        auto_makefile = open(os.path.join(b, 'Makefile')).read()

        # What would a fresh configure with the same configuration write?
        os.rename(b, b + '.auto')
        rc2, out2 = run([env['BFG9000'], 'configure', b, '--backend=make',
                         '--no-resolve-packages',
                         '--prefix=' + os.path.join(w, 'pfx')], env, cwd=p)
        fresh_makefile = open(os.path.join(b, 'Makefile')).read()
        if auto_makefile != fresh_makefile:
            fresh_has = 'two.txt' in fresh_makefile
            auto_has = 'two.txt' in auto_makefile
            problems.append(
                '{}: after adding data/{}/two.txt, `make` (exit {}) did not '
                'regenerate: Makefile mentions two.txt: automatic={}, fresh '
                'configure={}\n  .bfg_find_deps was:\n    {}\n  make said:\n'
                '    {}'.format(
                    label, dirname, rc, auto_has, fresh_has,
                    open(os.path.join(b + '.auto', '.bfg_find_deps')).read()
                    .replace('\n', '\n    '),
                    out.replace('\n', '\n    ')))
    finally:
        shutil.rmtree(w, ignore_errors=True)
    return problems


def main():
    if len(sys.argv) != 2:
        sys.exit('usage: demo.py BFG9000_SOURCE_TREE')
    src = os.path.abspath(sys.argv[1])

    problems = []
    # 1. '=': the dependency line of .bfg_find_deps becomes a target-specific
    #    variable assignment, so nothing is watched any more (silent).
    problems += scenario(src, 'lang=en', 'data/lang=en/*.txt',
                         "'=' in a directory name")
    # 2. parentheses: make reads `dir/a(b)` as an archive member that never
    #    exists, so the build files are regenerated forever.
    problems += scenario(src, 'a(b)', 'data/**/*.txt',
                         'parentheses in a directory name')

    if problems:
        print('PROPERTY VIOLATED')
        for i in problems:
            print('-', i)
        return 1
    print('ok: every directory was watched and regeneration converged')
    return 0


if __name__ == '__main__':
    sys.exit(main())
