#!/venv/bin/python
"""f3: .bfg_environ and .bfg_find_cache are rewritten in place; a regeneration
that dies (or runs out of disk space) while writing one of them wedges the
build directory: every later automatic regeneration fails.

usage: demo.py /path/to/bfg9000-source-tree
exit status: 0 = property holds, 1 = violated
"""
import os
import shutil
import subprocess
import sys
import tempfile
import time

PY = '/venv/bin/python' if os.path.exists('/venv/bin/python') else sys.executable

# Runs bfg9000.driver.main(); when FAULT_FILE is set, the process is killed
# after the file of that name (or a temporary file <name>.*) was opened for writing (= truncated) and half of
# the first chunk of data was written: kill -9, power loss, or - same result on
# disk - ENOSPC on the first write.
RUNNER = r'''
import builtins, io, os, sys
sys.path.insert(0, {src!r})
fault_file = os.environ.get('FAULT_FILE')
real_open = builtins.open

class Torn:
    def __init__(self, f): self._f = f
    def write(self, data):
        self._f.write(data[:max(1, len(data) // 2)]); self._f.flush()
        sys.stderr.write('*** injected: killed while writing %s\n' % self._f.name)
        sys.stderr.flush()
        os._exit(137)
    def __getattr__(self, k): return getattr(self._f, k)
    def __enter__(self): return self
    def __exit__(self, *a): return self._f.__exit__(*a)

def my_open(file, mode='r', *args, **kwargs):
    f = real_open(file, mode, *args, **kwargs)
    if ( fault_file and isinstance(file, str) and
         os.path.basename(file).startswith(fault_file) and
         any(c in mode for c in 'wax+') ):
        return Torn(f)
    return f

builtins.open = io.open = my_open
sys.argv[0] = {argv0!r}
from bfg9000.driver import main
sys.exit(main())
'''


def setup(src):
    w = tempfile.mkdtemp(prefix='c08-f3.', dir='/tmp')
    bind = os.path.join(w, 'bin')
    os.makedirs(bind)
    bfg = os.path.join(bind, 'bfg9000')
    with open(os.path.join(bind, 'runner.py'), 'w') as f:
        f.write(RUNNER.format(src=src, argv0=bfg))
    with open(bfg, 'w') as f:
        f.write('#!/bin/sh\nexec {} {} "$@"\n'.format(
            PY, os.path.join(bind, 'runner.py')))
    dep = os.path.join(bind, 'bfg9000-depfixer')
    with open(dep, 'w') as f:
        f.write('#!/bin/sh\nPYTHONPATH={} exec {} -c "from bfg9000.depfixer '
                'import main; import sys; sys.exit(main())" "$@"\n'
                .format(src, PY))
    os.chmod(bfg, 0o755)
    os.chmod(dep, 0o755)
    env = dict(os.environ, BFG9000=bfg, PYTHONHASHSEED='0',
               PATH=bind + os.pathsep + os.environ['PATH'])
    for k in ('MAKEFLAGS', 'MAKELEVEL', 'MFLAGS', 'FAULT_FILE'):
        env.pop(k, None)
    return w, env


def run(cmd, env, cwd=None, **extra_env):
    r = subprocess.run(cmd, env=dict(env, **extra_env), cwd=cwd, timeout=120,
                       stdout=subprocess.PIPE, stderr=subprocess.STDOUT,
                       universal_newlines=True)
    return r.returncode, r.stdout


def scenario(src, fault_file, edit, label):
    problems = []
    w, env = setup(src)
    try:
        p, b = os.path.join(w, 'p'), os.path.join(w, 'b')
        os.makedirs(os.path.join(p, 'src'))
        with open(os.path.join(p, 'build.bfg'), 'w') as f:
            f.write("project('p', version='1.0')\n"
                    "executable('prog', find_files('src/*.c'))\n")
        with open(os.path.join(p, 'src', 'main.c'), 'w') as f:
            f.write('int main(void) { return 0; }\n')
        conf = [env['BFG9000'], 'configure', b, '--backend=make',
                '--no-resolve-packages', '--prefix=' + os.path.join(w, 'pfx')]
        rc, out = run(conf, env, cwd=p)
        if rc != 0:
            return ['configure failed:\n' + out]
        rc, out = run(['make', '-C', b], env)
        if rc != 0:
            return ['first make failed:\n' + out]

        time.sleep(1.1)
        edit(p)

        rc1, out1 = run(['make', '-C', b], env, FAULT_FILE=fault_file)
        rc2, out2 = run(['make', '-C', b], env)    # user retries
        rc3, out3 = run(['make', '-C', b], env)    # and again
        # Can the user at least ask for a full regeneration by hand?
        rc4, out4 = run([env['BFG9000'], 'regenerate', b], env)

        if rc2 != 0 or rc3 != 0:
            problems.append(
                '[{}] after one regeneration was killed while writing {}, '
                'automatic regeneration never succeeds again: make exit '
                'statuses {} (killed), {} and {} (retries); manual `bfg9000 '
                'regenerate` exits {}.\n  output of the last retry:\n    {}'
                .format(label, fault_file, rc1, rc2, rc3, rc4,
                        out3.strip().replace('\n', '\n    ')))
        else:
            auto = open(os.path.join(b, 'Makefile')).read()
            os.rename(b, b + '.auto')
            run(conf, env, cwd=p)
            if auto != open(os.path.join(b, 'Makefile')).read():
                problems.append('[{}] Makefile differs from fresh configure'
                                .format(label))
    finally:
        shutil.rmtree(w, ignore_errors=True)
    return problems


def add_readme(p):
    # Does not match src/*.c: the lazy check will decide to skip regeneration,
    # but .bfg_environ is rewritten before that decision.
    with open(os.path.join(p, 'src', 'README'), 'w') as f:
        f.write('hello\n')


def add_source(p):
    with open(os.path.join(p, 'src', 'extra.c'), 'w') as f:
        f.write('int extra(void) { return 1; }\n')


def main():
    if len(sys.argv) != 2:
        sys.exit('usage: demo.py BFG9000_SOURCE_TREE')
    src = os.path.abspath(sys.argv[1])
    problems = (
        scenario(src, '.bfg_environ', add_readme,
                 'non-matching file added, regeneration would be skipped') +
        scenario(src, '.bfg_find_cache', add_source,
                 'matching file added, full regeneration')
    )
    if problems:
        print('PROPERTY VIOLATED')
        for i in problems:
            print('-', i)
        return 1
    print('ok: the build directory recovered from the interrupted '
          'regeneration')
    return 0


if __name__ == '__main__':
    sys.exit(main())
