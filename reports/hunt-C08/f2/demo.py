#!/venv/bin/python
"""f2: compile_commands.json is written last, non-atomically, and nothing
notices when that write does not complete.

A regeneration that is interrupted (kill, power loss) or fails (ENOSPC, EIO)
after the Makefile has been renamed into place leaves the old or a truncated
compile_commands.json behind.  The Makefile is up to date, so every later
`make` exits 0 without regenerating: the stale file stays for good.

usage: demo.py /path/to/bfg9000-source-tree
exit status: 0 = property holds, 1 = violated
"""
import os
import shutil
import subprocess
import sys
import tempfile
import time

PY = '/venv/bin/python' if os.path.exists('/venv/bin/python') else sys.executable

# Runs bfg9000.driver.main(); when FAULT is set, injects a fault at the moment
# compile_commands.json is opened for writing:
#   FAULT=enospc  the open() fails with ENOSPC (disk full)
#   FAULT=kill    the process dies after the file was truncated and half of the
#                 first chunk was written (kill -9 / power loss)
RUNNER = r'''
import builtins, io, os, sys
sys.path.insert(0, {src!r})
fault = os.environ.get('FAULT')
real_open = builtins.open

class Torn:
    def __init__(self, f): self._f = f
    def write(self, data):
        self._f.write(data[:max(1, len(data) // 2)]); self._f.flush()
        sys.stderr.write('*** injected: killed while writing %s\n' % self._f.name)
        sys.stderr.flush()
        os._exit(137)
    def __getattr__(self, k): return getattr(self._f, k)
    def __enter__(self): return self
    def __exit__(self, *a): return self._f.__exit__(*a)

def my_open(file, mode='r', *args, **kwargs):
    target = (isinstance(file, str) and
              os.path.basename(file).startswith('compile_commands.json') and
              any(c in mode for c in 'wax+'))
    if fault and target:
        if fault == 'enospc':
            sys.stderr.write('*** injected: ENOSPC opening %s\n' % file)
            raise OSError(28, 'No space left on device', file)
        return Torn(real_open(file, mode, *args, **kwargs))
    return real_open(file, mode, *args, **kwargs)

builtins.open = io.open = my_open
sys.argv[0] = {argv0!r}
from bfg9000.driver import main
sys.exit(main())
'''


def setup(src):
    w = tempfile.mkdtemp(prefix='c08-f2.', dir='/tmp')
    bind = os.path.join(w, 'bin')
    os.makedirs(bind)
    bfg = os.path.join(bind, 'bfg9000')
    with open(os.path.join(bind, 'runner.py'), 'w') as f:
        f.write(RUNNER.format(src=src, argv0=bfg))
    with open(bfg, 'w') as f:
        f.write('#!/bin/sh\nexec {} {} "$@"\n'.format(
            PY, os.path.join(bind, 'runner.py')))
    dep = os.path.join(bind, 'bfg9000-depfixer')
    with open(dep, 'w') as f:
        f.write('#!/bin/sh\nPYTHONPATH={} exec {} -c "from bfg9000.depfixer '
                'import main; import sys; sys.exit(main())" "$@"\n'
                .format(src, PY))
    os.chmod(bfg, 0o755)
    os.chmod(dep, 0o755)
    env = dict(os.environ, BFG9000=bfg, PYTHONHASHSEED='0',
               PATH=bind + os.pathsep + os.environ['PATH'])
    for k in ('MAKEFLAGS', 'MAKELEVEL', 'MFLAGS', 'FAULT'):
        env.pop(k, None)
    return w, env


def run(cmd, env, cwd=None, **extra_env):
    r = subprocess.run(cmd, env=dict(env, **extra_env), cwd=cwd, timeout=120,
                       stdout=subprocess.PIPE, stderr=subprocess.STDOUT,
                       universal_newlines=True)
    return r.returncode, r.stdout


def scenario(src, fault):
    problems = []
    w, env = setup(src)
    try:
        p, b = os.path.join(w, 'p'), os.path.join(w, 'b')
        os.makedirs(os.path.join(p, 'src'))
        with open(os.path.join(p, 'build.bfg'), 'w') as f:
            f.write("project('p', version='1.0')\n"
                    "executable('prog', find_files('src/*.c'))\n")
        with open(os.path.join(p, 'src', 'main.c'), 'w') as f:
            f.write('int main(void) { return 0; }\n')
        conf = [env['BFG9000'], 'configure', b, '--backend=make',
                '--no-resolve-packages', '--prefix=' + os.path.join(w, 'pfx')]
        rc, out = run(conf, env, cwd=p)
        if rc != 0:
            return ['configure failed:\n' + out]
        rc, out = run(['make', '-C', b], env)
        if rc != 0:
            return ['first make failed:\n' + out]

        # The edit: a new source file, picked up by find_files.
        time.sleep(1.1)
        with open(os.path.join(p, 'src', 'extra.c'), 'w') as f:
            f.write('int extra(void) { return 1; }\n')

        rc1, out1 = run(['make', '-C', b], env, FAULT=fault)   # interrupted
        rc2, out2 = run(['make', '-C', b], env)                # user retries
        rc3, out3 = run(['make', '-C', b], env)                # and again
        auto = open(os.path.join(b, 'compile_commands.json')).read()
        auto_mk = open(os.path.join(b, 'Makefile')).read()

        os.rename(b, b + '.auto')
        rc, out = run(conf, env, cwd=p)
        fresh = open(os.path.join(b, 'compile_commands.json')).read()
        fresh_mk = open(os.path.join(b, 'Makefile')).read()

        if auto_mk != fresh_mk:
            problems.append('[{}] Makefile differs from a fresh configure'
                            .format(fault))
        if auto != fresh:
            problems.append(
                '[{}] make exit statuses: faulted run {}, retry {}, retry {};'
                ' the retries regenerated {}.\n'
                '  compile_commands.json after the retries ({} bytes, '
                'mentions extra.c: {}) differs from a fresh configure '
                '({} bytes, mentions extra.c: {}).\n'
                '  output of the first retry:\n    {}'.format(
                    fault, rc1, rc2, rc3,
                    'something' if 'regenerat' in out2 + out3 else 'nothing',
                    len(auto), 'extra.c' in auto,
                    len(fresh), 'extra.c' in fresh,
                    out2.strip().replace('\n', '\n    ')))
    finally:
        shutil.rmtree(w, ignore_errors=True)
    return problems


def main():
    if len(sys.argv) != 2:
        sys.exit('usage: demo.py BFG9000_SOURCE_TREE')
    src = os.path.abspath(sys.argv[1])
    problems = scenario(src, 'enospc') + scenario(src, 'kill')
    if problems:
        print('PROPERTY VIOLATED')
        for i in problems:
            print('-', i)
        return 1
    print('ok: compile_commands.json matches a fresh configure after the '
          'interrupted regeneration was retried')
    return 0


if __name__ == '__main__':
    sys.exit(main())
