#!/bin/sh
# f4: a build_step whose output is a directory (type=directory /
# type=header_directory) is re-run by every build once one of its inputs has
# changed, because the rule's target is the directory inode and rewriting the
# files inside it does not bump the directory's mtime.
# usage: demo.sh /path/to/bfg9000-source-tree
set -u
SRC=${1:?usage: demo.sh BFG_SOURCE_TREE}
T=$(mktemp -d /tmp/c03-f4.XXXXXX)
trap 'rm -rf "$T"' EXIT
export PATH=/venv/bin:$PATH

cat > "$T/bfg" <<EOS
#!/bin/sh
PYTHONPATH=$SRC exec /venv/bin/bfg9000 "\$@"
EOS
chmod +x "$T/bfg"
export BFG9000="$T/bfg"

mkdir -p "$T/proj"
cat > "$T/proj/build.bfg" <<'EOS'
project('f4')
gen = build_step('gen/', cmd=['sh', source_file('gen.sh'), build_step.output],
                 type=header_directory)
exe = executable('main', ['main.c'], includes=[gen])
EOS
cat > "$T/proj/gen.sh" <<'EOS'
mkdir -p "$1"
echo "#define V 1" > "$1/v.h"
EOS
printf '#include "v.h"\nint main(void){return V-1;}\n' > "$T/proj/main.c"

( cd "$T/proj" && "$T/bfg" configure "$T/build" --backend=make \
    --no-resolve-packages --prefix="$T/prefix" ) >/dev/null 2>&1 || {
      echo "configure failed"; exit 2; }
echo "--- generated rule:"; grep -A1 '^gen:' "$T/build/Makefile"

run() { make -C "$T/build" 2>&1 | grep -v 'ing directory'; }
run >/dev/null
o=$(run); echo "--- 2nd build (fresh tree): $o"
case "$o" in *"Nothing to be done"*) ;; *) echo "VIOLATION: second build is not a no-op"; exit 1;; esac

sleep 1.1
touch "$T/proj/gen.sh"          # single-file modification of an input
echo "--- build after touching gen.sh:"; run
rc=0
for i in 1 2 3; do
  sleep 1.1
  o=$(run)
  echo "--- build #$i right after a build:"; echo "$o"
  case "$o" in
    *"Nothing to be done"*) ;;
    *) rc=1;;
  esac
done
[ $rc = 0 ] || echo "VIOLATION: with no file changed, every build re-runs the generator, recompiles main.o and relinks main"
exit $rc
