#!/bin/sh
# f1: the files enumerated by directory(..., include=...) are not prerequisites
# of a custom step that names the directory in its command (or in extra_deps).
# usage: demo.sh /path/to/bfg9000-source-tree
set -u
SRC=${1:?usage: demo.sh BFG_SOURCE_TREE}
T=$(mktemp -d /tmp/c03-f1.XXXXXX)
trap 'rm -rf "$T"' EXIT
export PATH=/venv/bin:$PATH

cat > "$T/bfg" <<EOS
#!/bin/sh
PYTHONPATH=$SRC exec /venv/bin/bfg9000 "\$@"
EOS
chmod +x "$T/bfg"
export BFG9000="$T/bfg"

mkdir -p "$T/proj/data"
cat > "$T/proj/build.bfg" <<'EOS'
project('f1')
d = directory('data', include='*.txt')
# the directory is named in the command line ...
cat1 = build_step('all1.txt', cmd=['sh', '-c', 'cat "$0"/*.txt > "$1"', d,
                                  build_step.output])
default(cat1)
EOS
echo one > "$T/proj/data/a.txt"
echo two > "$T/proj/data/b.txt"

rc=0
for backend in make; do
  ( cd "$T/proj" && "$T/bfg" configure "$T/build" --backend=$backend \
      --no-resolve-packages --prefix="$T/prefix" ) >/dev/null 2>&1 || {
        echo "configure failed"; exit 2; }
done

echo "--- rule generated for all1.txt:"
grep -A1 '^all1.txt:' "$T/build/Makefile"

make -C "$T/build" >/dev/null 2>&1 || { echo "first build failed"; exit 2; }
before=$(cat "$T/build/all1.txt")

sleep 1.1
echo ONE-CHANGED > "$T/proj/data/a.txt"      # single-file modification of an input
out=$(make -C "$T/build" 2>&1)
after=$(cat "$T/build/all1.txt")

echo "--- make after editing data/a.txt said:"
echo "$out"
if [ "$after" = "$(cat "$T"/proj/data/*.txt)" ]; then
  echo "OK: all1.txt was rebuilt from the edited file"
else
  echo "VIOLATION: data/a.txt (listed by directory('data', include='*.txt') and"
  echo "consumed by the step) was modified, but the step was not re-run:"
  echo "  all1.txt = $(echo $after)   expected = $(cat "$T"/proj/data/*.txt | tr '\n' ' ')"
  rc=1
fi

# The same holds for the ninja backend (text inspection only; no ninja here).
mkdir -p "$T/bin"; printf '#!/bin/sh\necho 1.11.1\n' > "$T/bin/ninja"; chmod +x "$T/bin/ninja"
( cd "$T/proj" && PATH="$T/bin:$PATH" "$T/bfg" configure "$T/buildn" --backend=ninja \
    --no-resolve-packages --prefix="$T/prefix" ) >/dev/null 2>&1
echo "--- build.ninja:"
grep '^build all1.txt' "$T/buildn/build.ninja"
if grep '^build all1.txt' "$T/buildn/build.ninja" | grep -q 'data/a.txt'; then :; else
  echo "VIOLATION (ninja): data/a.txt is not an input of all1.txt either"; rc=1
fi
exit $rc
