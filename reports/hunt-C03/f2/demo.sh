#!/bin/sh
# f2: Fortran compile steps depend on nothing but their primary source:
# INCLUDEd files and USEd modules (the .mod files written by sibling compile
# steps, which have no producing rule) are not prerequisites.
# usage: demo.sh /path/to/bfg9000-source-tree
set -u
SRC=${1:?usage: demo.sh BFG_SOURCE_TREE}
command -v gfortran >/dev/null 2>&1 || { echo "gfortran not available; skipping"; exit 0; }
T=$(mktemp -d /tmp/c03-f2.XXXXXX)
trap 'rm -rf "$T"' EXIT
export PATH=/venv/bin:$PATH

cat > "$T/bfg" <<EOS
#!/bin/sh
PYTHONPATH=$SRC exec /venv/bin/bfg9000 "\$@"
EOS
chmod +x "$T/bfg"
export BFG9000="$T/bfg"

mkdir -p "$T/proj"
cat > "$T/proj/build.bfg" <<'EOS'
project('f2')
executable('prog', ['consts.f90', 'main.f90'])
EOS
cat > "$T/proj/consts.f90" <<'EOS'
module consts
  integer, parameter :: n = 1
end module consts
EOS
cat > "$T/proj/main.f90" <<'EOS'
program main
  use consts
  include 'params.inc'
  print '(I0,1X,I0)', n, m
end program main
EOS
echo '      integer, parameter :: m = 1' > "$T/proj/params.inc"

( cd "$T/proj" && "$T/bfg" configure "$T/build" --backend=make \
    --no-resolve-packages --prefix="$T/prefix" ) >/dev/null 2>&1 || {
      echo "configure failed"; exit 2; }

echo "--- generated compile rules:"
grep '^prog.int/.*\.o:' "$T/build/Makefile"

make -C "$T/build" >/dev/null 2>&1 || { echo "first build failed"; exit 2; }
r0=$("$T/build/prog")
echo "first build prints: $r0"
rc=0

# (a) modify the included file only
sleep 1.1
echo '      integer, parameter :: m = 2' > "$T/proj/params.inc"
o1=$(make -C "$T/build" 2>&1 | grep -v 'ing directory')
r1=$("$T/build/prog")
echo "--- after editing params.inc: make said: $o1"
echo "program prints: $r1 (expected: 1 2)"
[ "$r1" = "1 2" ] || { echo "VIOLATION: params.inc is consumed by main.o's compile step but is not a prerequisite"; rc=1; }

# (b) modify the module source only
sleep 1.1
sed 's/n = 1/n = 2/' "$T/proj/consts.f90" > "$T/proj/consts.f90.new" && mv "$T/proj/consts.f90.new" "$T/proj/consts.f90"
o2=$(make -C "$T/build" 2>&1 | grep -v 'ing directory')
r2=$("$T/build/prog")
echo "--- after editing consts.f90: make said:"; echo "$o2"
echo "program prints: $r2 (a clean build prints: 2 2)"
[ "$r2" = "2 2" ] || { echo "VIOLATION: main.o consumes consts.mod (written by the consts.o step, no rule names it) but was not recompiled; the relinked program is stale"; rc=1; }

# (c) the produced file consts.mod has no producing rule at all
if make -C "$T/build" -pn 2>/dev/null | grep -q '^consts\.mod:'; then :; else
  echo "NOTE: consts.mod exists in the build dir ($(ls "$T/build" | tr '\n' ' ')) but no rule produces it; 'make clean' leaves it behind"
fi
exit $rc
