#!/bin/sh
# f3: a binary handed to test() anywhere but in the first word of the command
# (e.g. behind a wrapper/runner) stays in the default target.
# usage: demo.sh /path/to/bfg9000-source-tree
set -u
SRC=${1:?usage: demo.sh BFG_SOURCE_TREE}
T=$(mktemp -d /tmp/c03-f3.XXXXXX)
trap 'rm -rf "$T"' EXIT
export PATH=/venv/bin:$PATH

cat > "$T/bfg" <<EOS
#!/bin/sh
PYTHONPATH=$SRC exec /venv/bin/bfg9000 "\$@"
EOS
chmod +x "$T/bfg"
export BFG9000="$T/bfg"

mkdir -p "$T/proj" "$T/bin"
printf '#!/bin/sh\necho 1.11.1\n' > "$T/bin/ninja"; chmod +x "$T/bin/ninja"
cat > "$T/proj/build.bfg" <<'EOS'
project('f3')
prog   = executable('prog', ['main.c'])
t_bare = executable('t_bare', ['main.c'])
t_wrap = executable('t_wrap', ['main.c'])
t_drv  = executable('t_drv', ['main.c'])
runner = executable('runner', ['main.c'])
test(t_bare)                                  # removed from the default set
test(['sh', source_file('wrap.sh'), t_wrap])  # handed to test(), NOT removed
drv = test_driver([runner, '--all'])          # runner: removed
test([t_drv, '--fast'], driver=drv)           # removed
EOS
echo 'int main(void){return 0;}' > "$T/proj/main.c"
printf '#!/bin/sh\nexec "$@"\n' > "$T/proj/wrap.sh"

rc=0
for backend in make ninja; do
  ( cd "$T/proj" && PATH="$T/bin:$PATH" "$T/bfg" configure "$T/build-$backend" \
      --backend=$backend --no-resolve-packages --prefix="$T/prefix" ) >/dev/null 2>&1 || {
        echo "configure ($backend) failed"; exit 2; }
  if [ $backend = make ]; then
    all=$(sed -n 's/^all: *//p' "$T/build-make/Makefile")
    tests=$(sed -n 's/^tests: *//p' "$T/build-make/Makefile")
  else
    all=$(sed -n 's/^build all: phony *//p' "$T/build-ninja/build.ninja")
    tests=$(sed -n 's/^build tests: phony *//p' "$T/build-ninja/build.ninja")
  fi
  echo "[$backend] all   = $all"
  echo "[$backend] tests = $tests"
  if [ "$all" != "prog" ]; then
    echo "VIOLATION [$backend]: default set should be {prog} (every other binary was handed to test()), got {$all}"
    rc=1
  fi
done

# and for real: a plain `make` builds the test binary
make -C "$T/build-make" >/dev/null 2>&1
[ -e "$T/build-make/t_wrap" ] && echo "after 'make': t_wrap was built by the default target (t_bare: $( [ -e "$T/build-make/t_bare" ] && echo built || echo not built ))"
exit $rc
