#!/usr/bin/env python3
"""F1: an interrupted regeneration that changes the number of files declared
as outputs of the regeneration step (1 <-> more than 1) leaves .bfg_find_deps
naming a target that the old Makefile never brings up to date: every later
`make` succeeds without regenerating.

usage: demo.py /path/to/bfg9000-source-tree   (exit 1 = property violated)
"""
import difflib
import os
import shutil
import subprocess
import sys
import tempfile
import textwrap
import time

TREE = os.path.abspath(sys.argv[1] if len(sys.argv) > 1 else '.')
PYTHON = os.environ.get('PYTHON') or (
    '/venv/bin/python' if os.path.exists('/venv/bin/python')
    else sys.executable
)

# A stand-in for the `bfg9000` executable that runs the code of TREE. If the
# file named by $BFG_INJECT exists, it holds "<kill|raise> <substring>"; the
# file is consumed (one shot) and the run is killed (os._exit(137)) or made to
# fail with OSError(ENOSPC) just *before* the first file-system mutation whose
# description contains <substring>.
RUNNER = r'''
import os, sys
tree, self_path = sys.argv[1], sys.argv[2]
sys.path.insert(0, tree)
sys.argv = [self_path] + sys.argv[3:]
inject = os.environ.get('BFG_INJECT')
if inject and os.path.exists(inject):
    mode, pattern = open(inject).read().split()
    os.remove(inject)
    armed = [True]
    def hook(event, args):
        if not armed[0]:
            return
        desc = None
        if event == 'open':
            flags = args[2]
            if isinstance(flags, int) and flags & (os.O_WRONLY | os.O_RDWR):
                desc = 'open:' + str(args[0])
        elif event in ('os.rename', 'os.remove', 'os.utime', 'os.mkdir'):
            desc = event[3:] + ':' + ','.join(str(i) for i in args[:2])
        if desc and '__pycache__' not in desc and pattern in desc:
            armed[0] = False
            sys.stderr.write('*** injected %s before %s\n' % (mode, desc))
            sys.stderr.flush()
            if mode == 'kill':
                os._exit(137)
            raise OSError(28, 'No space left on device (injected)')
    sys.addaudithook(hook)
from bfg9000.driver import main
sys.exit(main())
'''


class Sandbox:
    def __init__(self):
        self.root = tempfile.mkdtemp(prefix='bfg-c10-', dir='/tmp')
        self.src = os.path.join(self.root, 'src')
        self.build = os.path.join(self.root, 'build')
        self.inject = os.path.join(self.root, 'inject')
        os.makedirs(self.src)
        runner = os.path.join(self.root, 'runner.py')
        with open(runner, 'w') as f:
            f.write(RUNNER)
        self.bfg = os.path.join(self.root, 'bfg9000')
        with open(self.bfg, 'w') as f:
            f.write('#!/bin/sh\nexec "{}" "{}" "{}" "{}" "$@"\n'.format(
                PYTHON, runner, TREE, self.bfg
            ))
        os.chmod(self.bfg, 0o755)
        # bfg9000 looks for its helper next to its own executable.
        depfixer = os.path.join(self.root, 'bfg9000-depfixer')
        with open(depfixer, 'w') as f:
            f.write('#!/bin/sh\nPYTHONPATH="{}" exec "{}" -c "import sys; '
                    'from bfg9000.depfixer import main; sys.exit(main())"\n'
                    .format(TREE, PYTHON))
        os.chmod(depfixer, 0o755)
        self.env = dict(os.environ, BFG9000=self.bfg, BFG_INJECT=self.inject,
                        PYTHONDONTWRITEBYTECODE='1',
                        # Same iteration order of sets in every run, so that
                        # generated files can be compared textually.
                        PYTHONHASHSEED='0')
        self.env.pop('MAKEFLAGS', None)

    def write(self, name, content):
        path = os.path.join(self.src, name)
        os.makedirs(os.path.dirname(path), exist_ok=True)
        with open(path, 'w') as f:
            f.write(textwrap.dedent(content))

    def run(self, *cmd, cwd=None):
        p = subprocess.run(cmd, cwd=cwd or self.root, env=self.env,
                           stdout=subprocess.PIPE, stderr=subprocess.STDOUT,
                           universal_newlines=True)
        return p.returncode, p.stdout

    def configure(self, builddir):
        rc, out = self.run(
            self.bfg, 'configure', builddir, '--backend=make',
            '--no-resolve-packages',
            '--prefix=' + os.path.join(self.root, 'prefix'), cwd=self.src
        )
        if rc != 0:
            raise RuntimeError('configure failed:\n' + out)

    def make(self, *args, inject=None):
        if inject:
            with open(self.inject, 'w') as f:
                f.write(inject)
        try:
            return self.run('make', '-C', self.build, *args)
        finally:
            if os.path.exists(self.inject):
                os.remove(self.inject)

    def read(self, builddir, name):
        try:
            with open(os.path.join(builddir, name)) as f:
                return f.read()
        except FileNotFoundError:
            return None

    def compare_with_fresh(self, names):
        """Configure the sources as they are now into a fresh build directory
        and diff the named files against those in the tested one."""
        ref = os.path.join(self.root, 'fresh')
        shutil.rmtree(ref, ignore_errors=True)
        self.configure(ref)
        diffs = []
        for name in names:
            got = self.read(self.build, name)
            want = self.read(ref, name)
            if want is not None:
                want = want.replace(ref, self.build)
            if got != want:
                lines = [i for i in difflib.unified_diff(
                    (want or '').splitlines(True),
                    (got or '').splitlines(True),
                    'fresh configure: ' + name, 'after the history: ' + name,
                    n=0
                ) if not i.startswith('@@')]
                if len(lines) > 14:
                    lines = lines[:14] + ['... ({} more lines)\n'.format(
                        len(lines) - 14)]
                diffs.append(''.join(lines) or
                             '{}: presence differs\n'.format(name))
        return diffs

    def cleanup(self):
        shutil.rmtree(self.root, ignore_errors=True)


def pause():
    # Keep every edit strictly newer than the files written before it, also
    # on file systems with one-second timestamps.
    time.sleep(1.1)


BUILD_BFG = '''
    project('p', version='1.0')
    hdr = header_directory('include', include='*.h')
    lib = library('p', files=find_files('src/*.c'), includes=[hdr])
    # One pkg-config file per description found: the number of files the
    # regeneration step declares as outputs follows the directory contents.
    for i in find_files('src/*.pc.in'):
        pkg_config(i.path.stripext('').stripext('').basename(),
                   version='1.0', includes=[hdr], libs=[lib], auto_fill=False)
    install(lib, hdr)
'''


def history(direction, mode):
    """direction: 'grow' (1 -> 3 outputs) or 'shrink' (3 -> 1 outputs)."""
    sb = Sandbox()
    try:
        sb.write('build.bfg', BUILD_BFG)
        sb.write('include/p.h', 'int a(void);\n')
        sb.write('src/a.c', 'int a(void) { return 1; }\n')
        marker = os.path.join(sb.src, 'src', 'p.pc.in')
        if direction == 'shrink':
            sb.write('src/p.pc.in', '')
        sb.configure(sb.build)
        rc, out = sb.make()
        assert rc == 0, out
        rc, out = sb.make()
        assert rc == 0, out

        # The change: the set of pkg-config files changes.
        pause()
        if direction == 'grow':
            sb.write('src/p.pc.in', '')
        else:
            os.remove(marker)

        # Attempt 1: make regenerates; the run dies after the find depfile
        # has been replaced and before Makefile has.
        rc1, out1 = sb.make(inject=mode + ' open:' +
                            os.path.join(sb.build, 'Makefile.tmp'))
        if rc1 == 0:
            print('[{} {}] injection did not fire?\n{}'.format(
                direction, mode, out1))
            return True

        # Attempt 2: just run make again.
        rc2, out2 = sb.make()
        diffs = sb.compare_with_fresh(['Makefile'])

        # Attempt 3: a further change in the watched directory.
        pause()
        sb.write('src/b.c', 'int b(void) { return 2; }\n')
        rc3, out3 = sb.make()
        diffs3 = sb.compare_with_fresh(['Makefile'])

        ok = True
        if rc2 == 0 and diffs:
            ok = False
            print('[{} {}] VIOLATION: after the failed regeneration (make '
                  'exit {}), the next `make` exits 0 without regenerating; '
                  'Makefile still describes the old project:'
                  .format(direction, mode, rc1))
            print(out2.rstrip())
            print(''.join(diffs))
        if rc3 == 0 and diffs3:
            ok = False
            print('[{} {}] VIOLATION: adding src/b.c afterwards is not '
                  'noticed either (make exit 0, "{}"); libp still lacks b.c:'
                  .format(direction, mode, out3.strip().splitlines()[-2]))
            print(''.join(diffs3))
        if ok:
            print('[{} {}] ok: rc1={} rc2={} rc3={}'.format(
                direction, mode, rc1, rc2, rc3))
        return ok
    finally:
        sb.cleanup()


if __name__ == '__main__':
    results = [history(d, m) for d in ('grow', 'shrink')
               for m in ('kill', 'raise')]
    sys.exit(0 if all(results) else 1)
