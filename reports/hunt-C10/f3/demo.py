#!/usr/bin/env python3
"""F3: `AbortConfigure` - the internal exception with which the lazy check says
"nothing to do, exit 0" - is exported to build scripts like every other class
of bfg9000.exceptions. A build script (or options/toolchain file) that raises
it makes `configure` / `regenerate` exit 0 without writing anything; through
make, the stamp is even touched, so nothing retries.

usage: demo.py /path/to/bfg9000-source-tree   (exit 1 = property violated)
"""
import difflib
import os
import shutil
import subprocess
import sys
import tempfile
import textwrap
import time

TREE = os.path.abspath(sys.argv[1] if len(sys.argv) > 1 else '.')
PYTHON = os.environ.get('PYTHON') or (
    '/venv/bin/python' if os.path.exists('/venv/bin/python')
    else sys.executable
)

# A stand-in for the `bfg9000` executable that runs the code of TREE. If the
# file named by $BFG_INJECT exists, it holds "<kill|raise> <substring>"; the
# file is consumed (one shot) and the run is killed (os._exit(137)) or made to
# fail with OSError(ENOSPC) just *before* the first file-system mutation whose
# description contains <substring>.
RUNNER = r'''
import os, sys
tree, self_path = sys.argv[1], sys.argv[2]
sys.path.insert(0, tree)
sys.argv = [self_path] + sys.argv[3:]
inject = os.environ.get('BFG_INJECT')
if inject and os.path.exists(inject):
    mode, pattern = open(inject).read().split()
    os.remove(inject)
    armed = [True]
    def hook(event, args):
        if not armed[0]:
            return
        desc = None
        if event == 'open':
            flags = args[2]
            if isinstance(flags, int) and flags & (os.O_WRONLY | os.O_RDWR):
                desc = 'open:' + str(args[0])
        elif event in ('os.rename', 'os.remove', 'os.utime', 'os.mkdir'):
            desc = event[3:] + ':' + ','.join(str(i) for i in args[:2])
        if desc and '__pycache__' not in desc and pattern in desc:
            armed[0] = False
            sys.stderr.write('*** injected %s before %s\n' % (mode, desc))
            sys.stderr.flush()
            if mode == 'kill':
                os._exit(137)
            raise OSError(28, 'No space left on device (injected)')
    sys.addaudithook(hook)
from bfg9000.driver import main
sys.exit(main())
'''


class Sandbox:
    def __init__(self):
        self.root = tempfile.mkdtemp(prefix='bfg-c10-', dir='/tmp')
        self.src = os.path.join(self.root, 'src')
        self.build = os.path.join(self.root, 'build')
        self.inject = os.path.join(self.root, 'inject')
        os.makedirs(self.src)
        runner = os.path.join(self.root, 'runner.py')
        with open(runner, 'w') as f:
            f.write(RUNNER)
        self.bfg = os.path.join(self.root, 'bfg9000')
        with open(self.bfg, 'w') as f:
            f.write('#!/bin/sh\nexec "{}" "{}" "{}" "{}" "$@"\n'.format(
                PYTHON, runner, TREE, self.bfg
            ))
        os.chmod(self.bfg, 0o755)
        # bfg9000 looks for its helper next to its own executable.
        depfixer = os.path.join(self.root, 'bfg9000-depfixer')
        with open(depfixer, 'w') as f:
            f.write('#!/bin/sh\nPYTHONPATH="{}" exec "{}" -c "import sys; '
                    'from bfg9000.depfixer import main; sys.exit(main())"\n'
                    .format(TREE, PYTHON))
        os.chmod(depfixer, 0o755)
        self.env = dict(os.environ, BFG9000=self.bfg, BFG_INJECT=self.inject,
                        PYTHONDONTWRITEBYTECODE='1',
                        # Same iteration order of sets in every run, so that
                        # generated files can be compared textually.
                        PYTHONHASHSEED='0')
        self.env.pop('MAKEFLAGS', None)

    def write(self, name, content):
        path = os.path.join(self.src, name)
        os.makedirs(os.path.dirname(path), exist_ok=True)
        with open(path, 'w') as f:
            f.write(textwrap.dedent(content))

    def run(self, *cmd, cwd=None):
        p = subprocess.run(cmd, cwd=cwd or self.root, env=self.env,
                           stdout=subprocess.PIPE, stderr=subprocess.STDOUT,
                           universal_newlines=True)
        return p.returncode, p.stdout

    def configure(self, builddir):
        rc, out = self.run(
            self.bfg, 'configure', builddir, '--backend=make',
            '--no-resolve-packages',
            '--prefix=' + os.path.join(self.root, 'prefix'), cwd=self.src
        )
        if rc != 0:
            raise RuntimeError('configure failed:\n' + out)

    def make(self, *args, inject=None):
        if inject:
            with open(self.inject, 'w') as f:
                f.write(inject)
        try:
            return self.run('make', '-C', self.build, *args)
        finally:
            if os.path.exists(self.inject):
                os.remove(self.inject)

    def read(self, builddir, name):
        try:
            with open(os.path.join(builddir, name)) as f:
                return f.read()
        except FileNotFoundError:
            return None

    def compare_with_fresh(self, names):
        """Configure the sources as they are now into a fresh build directory
        and diff the named files against those in the tested one."""
        ref = os.path.join(self.root, 'fresh')
        shutil.rmtree(ref, ignore_errors=True)
        self.configure(ref)
        diffs = []
        for name in names:
            got = self.read(self.build, name)
            want = self.read(ref, name)
            if want is not None:
                want = want.replace(ref, self.build)
            if got != want:
                lines = [i for i in difflib.unified_diff(
                    (want or '').splitlines(True),
                    (got or '').splitlines(True),
                    'fresh configure: ' + name, 'after the history: ' + name,
                    n=0
                ) if not i.startswith('@@')]
                if len(lines) > 14:
                    lines = lines[:14] + ['... ({} more lines)\n'.format(
                        len(lines) - 14)]
                diffs.append(''.join(lines) or
                             '{}: presence differs\n'.format(name))
        return diffs

    def cleanup(self):
        shutil.rmtree(self.root, ignore_errors=True)


def pause():
    # Keep every edit strictly newer than the files written before it, also
    # on file systems with one-second timestamps.
    time.sleep(1.1)


BUILD_BFG = '''
    project('p', version='1.0')
    hdr = header_directory('include', include='*.h')
    lib = library('p', files=find_files('src/*.c'), includes=[hdr])
    {pc}
    install(lib, hdr)
'''

EDIT = '''
    tool = executable('tool', files=['tool.c'], libs=[lib], includes=[hdr])
    if not env.builder('c').compiler.flavor == 'msvc':
        raise AbortConfigure('tool needs MSVC')   # meant as a fatal error
'''


def history(multi):
    tag = 'several outputs' if multi else 'one output'
    sb = Sandbox()
    try:
        pc = "pkg_config('p', includes=[hdr], libs=[lib])" if multi else ''
        sb.write('build.bfg', BUILD_BFG.format(pc=pc))
        sb.write('include/p.h', 'int a(void);\n')
        sb.write('src/a.c', 'int a(void) { return 1; }\n')
        sb.write('tool.c', 'int main(void) { return 0; }\n')
        sb.configure(sb.build)
        rc, out = sb.make()
        assert rc == 0, out
        rc, out = sb.make()
        assert rc == 0, out
        before = sb.read(sb.build, 'Makefile')

        pause()
        with open(os.path.join(sb.src, 'build.bfg'), 'a') as f:
            f.write(textwrap.dedent(EDIT))

        ok = True
        rc1, out1 = sb.make()
        rc2, out2 = sb.make()
        rc3, out3 = sb.run(sb.bfg, 'regenerate', sb.build)
        after = sb.read(sb.build, 'Makefile')
        if (rc1, rc2, rc3) == (0, 0, 0) and after == before:
            ok = False
            print('[{}] VIOLATION: build.bfg now raises; `make` exits {}, a '
                  'second `make` exits {} ("{}"), `bfg9000 regenerate` exits '
                  '{}; Makefile is byte-for-byte the old one (no rule for '
                  '"tool").'.format(tag, rc1, rc2,
                                    out2.strip().splitlines()[-2], rc3))
            print(out1.rstrip())
        # A first-time configure of such a script also "succeeds".
        fresh = os.path.join(sb.root, 'fresh')
        rc4, out4 = sb.run(
            sb.bfg, 'configure', fresh, '--backend=make',
            '--no-resolve-packages', cwd=sb.src
        )
        if rc4 == 0 and not os.path.exists(os.path.join(fresh, 'Makefile')):
            ok = False
            print('[{}] VIOLATION: `bfg9000 configure` of the raising script '
                  'exits 0 and writes no Makefile at all'.format(tag))
        if ok:
            print('[{}] ok: make={} make={} regenerate={} configure={}'
                  .format(tag, rc1, rc2, rc3, rc4))
        return ok
    finally:
        sb.cleanup()


if __name__ == '__main__':
    results = [history(i) for i in (False, True)]
    sys.exit(0 if all(results) else 1)
