"""C10 - interrupted or failed regeneration never leaves silently stale build
files.

Scenario = project + pre-state + trigger edit + victim run + follow-up
attempts.  The victim run (configure / regenerate / the backend-launched lazy
regeneration) is killed or made to fail at a numbered mutation event, or the
script raises.  After every fault-free follow-up attempt that reports success,
the build file and the regeneration step's declared outputs must equal those of
an uninterrupted run (a fresh configure of the current sources)."""

import hashlib
import os
import random
import shutil

from . import gen as G
from . import sim as S
from . import c08
from .sim import Violation
from .world import HarnessError

PROP = 'C10'


def declared_outputs(sim, files=None):
    """Build file + the regenerate rule's other outputs (.pc files)."""
    files = sim.primary() if files is None else files
    return {k: v for k, v in files.items() if k != 'compile_commands.json'}


def site_of(event):
    kind, rel = event
    base = os.path.basename(rel)
    if base.endswith('.pc'):
        base = '*.pc'
    return '{}:{}'.format(kind, base)


# (source tree, configure arguments) -> what an uninterrupted configure into
# an empty directory writes; a pure function of the two, shared by the crash
# points of one scenario (cleared per case)
REF_CACHE = {}


class C10History:
    def __init__(self, sim):
        self.sim = sim
        self.violations = []
        self.trace = []
        self.nontrivial = False
        self.fired = None          # fault record of the victim run
        self.before_victim = None
        self.ref = None            # (ok, declared outputs) of a fresh run
        self.ref_key = None
        self.attempts = 0

    # the reference depends only on the source tree: cache it per tree state
    def reference(self, conf_args=None):
        sim = self.sim
        args = list(sim.proj.conf_args if conf_args is None else conf_args)
        key = repr(sorted(sim.world.snapshot('src').items())) + repr(args)
        if key not in REF_CACHE:
            keep = list(sim.proj.conf_args)
            sim.proj.conf_args[:] = args
            try:
                fresh, files, _ = sim.fresh_reference()
            finally:
                sim.proj.conf_args[:] = keep
            REF_CACHE[key] = (fresh.ok, declared_outputs(sim, files))
        else:
            sim.count('reference_cached')
        return REF_CACHE[key]

    def feats(self, extra=()):
        f = {'backend=' + self.sim.backend}
        if self.fired:
            f.add('fault=' + self.fired['kind'])
            f.add('site=' + site_of(self.fired['event']))
            if self.fired.get('persist'):
                f.add('persist')
        return f | set(extra)

    def run_bfg_like(self, how, fault=None):
        sim = self.sim
        if how == 'configure':
            return sim.configure(fault=fault)
        if how.startswith('reconfigure:'):
            # configure again over the existing build directory with another
            # command line: from now on that is the configuration every
            # later run (and the uninterrupted reference) is about
            extra = how[len('reconfigure:'):].replace(
                '@W@', sim.world.root).split(' ')
            base = [a for a in sim.proj.conf_args
                    if not any(a.startswith(e.split('=')[0]) for e in extra)]
            old_args = list(sim.proj.conf_args)
            sim.proj.conf_args[:] = base + extra
            r = sim.configure(fault=fault)
            if fault:
                # a re-configure with other arguments that fails may or may
                # not have recorded the new configuration yet: later runs are
                # about one of the two (see the attempt oracle)
                self.reconf = {'old': old_args,
                               'new': list(sim.proj.conf_args),
                               'after_victim': declared_outputs(sim)}
            return r
        if how == 'regenerate':
            return sim.bfg(['regenerate', sim.world.build], fault=fault)
        if how == 'lazy':
            return sim.bfg(['regenerate', '--lazy', sim.world.build],
                           fault=fault)
        if how in ('backend', 'build'):
            # what a user types: the backend with its default goal (an
            # explicit goal such as `make Makefile` would "succeed" on an
            # empty build file, which no user relies on)
            from . import bfgrun as R
            R.set_fault(sim.world, fault)
            r = sim.backend_run()
            R.set_fault(sim.world, None)
            return r
        raise HarnessError('unknown run kind ' + how)

    def step(self, op, idx):
        sim = self.sim
        k = op[0]
        if k == 'pre':
            r = self.run_bfg_like(op[1])
            self.trace.append(['pre', op[1], r.status])
            if not r.ok:
                raise HarnessError('pre-state op {} failed:\n{}'.format(
                    op[1], r.output[-2000:]))
        elif k == 'victim':
            how, fault = op[1], op[2]
            self.before_victim = declared_outputs(sim)
            r = self.run_bfg_like(how, fault)
            fired = [i['fired'] for i in r.inv if i.get('fired')]
            self.fired = fired[0] if fired else None
            if fault and fault.get('persist') and self.fired:
                self.fired['persist'] = True
            self.trace.append(['victim', how, r.status,
                               [i.get('outcome') for i in r.inv],
                               self.fired and self.fired['event']])
            if self.fired:
                sim.count('fired.' + self.fired['kind'])
                sim.count('site.' + site_of(self.fired['event']))
                self.nontrivial = True
            elif fault and fault['kind'] in ('kill', 'oserror'):
                sim.count('fault_not_fired')
            if self.fired and self.fired['kind'] == 'oserror' and r.ok:
                # the failed run itself reported success: then its outputs
                # must be what an uninterrupted run writes
                ok, ref = self.reference()
                mine = declared_outputs(sim)
                diff = sim.diff_files(mine, ref) if ok else ['(fresh fails)']
                if diff:
                    self.violations.append(Violation(
                        PROP, 'success-implies-fresh',
                        'the run that hit {} at {} exited 0 but {} differ '
                        'from an uninterrupted run'.format(
                            self.fired.get('errno'),
                            site_of(self.fired['event']), diff),
                        self.feats({'victim-reports-success',
                                    'victim=' + how.split(':')[0]} |
                                   {'stale:' + os.path.basename(d)
                                    for d in diff}), idx))
                else:
                    sim.count('victim.error_absorbed')
            if fault and fault['kind'] == 'script':
                self.nontrivial = True
                sim.count('fired.script:' + fault.get('what', ''))
                # a script that raises leaves the previous build file alone
                if r.ok:
                    sim.count('script_fault_did_not_fail')
                after = declared_outputs(sim)
                bf = sim.buildfile
                if self.before_victim.get(bf) is not None and \
                   after.get(bf) != self.before_victim.get(bf):
                    self.violations.append(Violation(
                        PROP, 'script-exception-untouched',
                        'the build script raised ({}) and the previously '
                        'generated {} was modified'.format(
                            fault.get('what'), bf),
                        self.feats({'fault=script:' + fault.get('what', ''),
                                    'victim=' + how.split(':')[0]}), idx))
        elif k == 'attempt':
            how = op[1]
            fault = op[2] if len(op) > 2 else None
            r = self.run_bfg_like(how, fault)
            self.attempts += 1
            outcomes = [i.get('outcome') for i in r.inv]
            self.trace.append(['attempt', how, r.status, outcomes])
            if fault:
                # a second fault: this attempt is another victim, not judged
                f2 = [i['fired'] for i in r.inv if i.get('fired')]
                if f2:
                    sim.count('fired2.' + f2[0]['kind'])
                return
            if 'livelock' in outcomes:
                # does not converge: but exits non-zero (75) -> visible
                sim.count('attempt.livelock')
            if not r.ok:
                sim.count('attempt.failed_visibly')
                return
            mine = declared_outputs(sim)
            if getattr(self, 'reconf', None):
                if self.judge_reconfigured(how, mine, idx):
                    return
            ok, ref = self.reference()
            if not ok:
                self.violations.append(Violation(
                    PROP, 'success-implies-fresh',
                    'attempt `{}` exits 0 although an uninterrupted run of '
                    'the current sources fails'.format(how),
                    self.feats({'attempt=' + how, 'fresh_fails'}), idx))
                return
            diff = sim.diff_files(mine, ref)
            if diff:
                import difflib
                d0 = diff[0]
                ud = list(difflib.unified_diff(
                    (ref.get(d0) or '').splitlines(),
                    (mine.get(d0) or '').splitlines(),
                    'uninterrupted/' + d0, 'after-recovery/' + d0,
                    lineterm='', n=0))
                self.violations.append(Violation(
                    PROP, 'success-implies-fresh',
                    'attempt #{} `{}` exits 0 but {} still differ from an '
                    'uninterrupted run (outcomes {}):\n{}'.format(
                        self.attempts, how, diff, outcomes,
                        '\n'.join(l[:200] for l in ud[:10])),
                    self.feats({'attempt=' + how} |
                               {'stale:' + os.path.basename(d)
                                for d in diff}), idx))
            else:
                sim.count('attempt.recovered')
        else:
            applied = sim.apply_edit(op)
            self.trace.append(['edit', op[0], op[1] if len(op) > 1 else None,
                               applied])


def _judge_reconfigured(self, how, mine, idx):
    """After a faulted re-configure with *other* arguments the saved
    configuration is the old or the new one; which, the property does not
    say.  A successful attempt must then produce what an uninterrupted
    configure with one of the two writes - and must not take a build file
    that already described the new configuration back to the old one.
    Returns True when this attempt has been judged here."""
    sim = self.sim
    rc = self.reconf
    ok_new, ref_new = self.reference(rc['new'])
    ok_old, ref_old = self.reference(rc['old'])
    bf = sim.buildfile
    if ok_new and not sim.diff_files(mine, ref_new):
        sim.count('attempt.recovered')
        sim.count('reconfigure.settled_new')
        self.reconf = None           # later attempts: the new configuration
        return True
    if ok_old and not sim.diff_files(mine, ref_old):
        sim.count('reconfigure.settled_old')
        was = rc['after_victim'].get(bf)
        if ok_new and was is not None and was == ref_new.get(bf) and \
           was != ref_old.get(bf):
            self.violations.append(Violation(
                PROP, 'success-implies-fresh',
                'the failed re-configure had already put the {} of the new '
                'configuration in place; attempt #{} `{}` exits 0 and takes '
                'it back to the old configuration'.format(
                    bf, self.attempts, how),
                self.feats({'attempt=' + how, 'victim=reconfigure',
                            'reverted-to-old-configuration',
                            'stale:' + bf}), idx))
            return True
        sim.count('attempt.recovered')
        # (still either/or for later attempts: the saved configuration may
        # already be the new one, and the next real regeneration follows it)
        return True
    # neither.  If every file is what one of the two configurations writes,
    # but not all of the same one, the attempt succeeded over a mixture
    if ok_new and ok_old:
        names = sorted(set(mine) | set(ref_new) | set(ref_old))
        which = {n: ('new' if mine.get(n) == ref_new.get(n) else
                     'old' if mine.get(n) == ref_old.get(n) else None)
                 for n in names}
        if None not in which.values() and \
           {'old', 'new'} <= set(which.values()):
            self.violations.append(Violation(
                PROP, 'success-implies-fresh',
                'attempt #{} `{}` exits 0 over a mixture of two '
                'configurations: {}'.format(
                    self.attempts, how,
                    ', '.join('{}={}'.format(n, w_)
                              for n, w_ in sorted(which.items())
                              if mine.get(n) != ref_new.get(n) or
                              mine.get(n) != ref_old.get(n))),
                self.feats({'attempt=' + how, 'victim=reconfigure',
                            'mixed-old-and-new-configuration'}), idx))
            return True
    # otherwise judged like every other attempt, against the new
    # configuration
    return False


C10History.judge_reconfigured = _judge_reconfigured


def run_ops(hist, ops, start=0):
    for i, op in enumerate(ops):
        hist.step(op, start + i)
        if hist.violations:
            break


def execute(root, proj, cfg, ops):
    w = c08.setup_world(root, proj, cfg)
    sim = S.Sim(w, proj, cfg)
    hist = C10History(sim)
    REF_CACHE.clear()
    try:
        run_ops(hist, ops)
    finally:
        if not os.environ.get('BFGSIM_KEEP'):
            w.destroy()
    return hist


# -- scenario generation -------------------------------------------------------

def trigger_edit(rng, sim, proj):
    """One edit that makes a regeneration necessary (or none)."""
    files, dirs = c08.list_tree(sim.world)
    lib = next(s for s in proj.stmts('find') if s.var == 'lib_src')
    base = lib.facts['base']
    x = rng.random()
    if x < 0.25:
        return [['append', 'build.bfg', '# touched\n']], 'script_comment'
    if x < 0.38:
        return [['append', 'build.bfg',
                 "alias('later', [prog])\n"]], 'script_semantic'
    if x < 0.65:
        rel = '{}/added{}.c'.format(base, rng.randrange(100))
        return [['write', rel, G.c_source(rel)]], 'add_matching'
    if x < 0.75:
        cands = [f for f in files if f.startswith(base + '/') and
                 f.endswith('.c') and os.path.basename(f) != 'core.c']
        if cands:
            return [['remove', rng.choice(cands)]], 'remove_matching'
    if x < 0.82 and proj.toolchain:
        return [['append', proj.toolchain,
                 "environ['CFLAGS'] = '-O3'\n"]], 'toolchain'
    if x < 0.94:
        # below a recursive search if the project has one (then a file that
        # appears in the new directory later is a new match)
        rec = [s for s in proj.stmts('find')
               if s.facts.get('pattern', '').startswith(
                   s.facts.get('base', '') + '/**/') and
               s.facts.get('kw', {}).get('cache') != 'False' and
               os.path.isdir(sim.world.s(s.facts['base']))]
        if rec:
            base = rng.choice(rec).facts['base']
        return [['mkdir', '{}/fresh{}'.format(base, rng.randrange(100))]], \
            'mkdir'
    return [], 'none'


RECONF_ARGS = ['--enable-static', '--disable-shared --enable-static',
               '--disable-compdb', '--prefix=@W@/otherprefix',
               '--libdir=@W@/prefix/lib64']

SCRIPT_FAULTS = {
    'exit-message': lambda t: t + "exit('stop: something is missing')\n",
    'raise-first': lambda t: "raise RuntimeError('injected')\n" + t,
    'raise-last': lambda t: t + "raise RuntimeError('injected')\n",
    'exit-3': lambda t: t + "import sys\nsys.exit(3)\n",
    # an exit status is taken modulo 256 by the operating system
    'exit-256': lambda t: t + "exit(256)\n",
    # bfg9000's own "stop here, nothing to do" exception, raised by a script
    'raise-abort': lambda t: t + "raise AbortConfigure('from the script')\n",
    'dup-output': lambda t: t + ("executable('prog', files=['main.c'])\n"),
}


def script_fault_ops(rng, sim):
    what = rng.choice(sorted(SCRIPT_FAULTS))
    if os.path.exists(sim.world.s('options.bfg')) and rng.random() < 0.25:
        # the options script raises (here: it opens a file that is missing)
        text = sim.world.read('options.bfg')
        new = text + "open('no/such/file.txt')\n"
        return [['write', 'options.bfg', new]], text, 'options-raises', \
            'options.bfg'
    text = sim.world.read('build.bfg')
    if what == 'raise-first':
        # keep the generated header comment first
        new = text.replace('\n', "\nraise RuntimeError('injected')\n", 1)
    else:
        new = SCRIPT_FAULTS[what](text)
    return [['write', 'build.bfg', new]], text, what, 'build.bfg'


def coordinates(events, rng, how_many=None):
    """Fault coordinates for a victim run whose fault-free census produced
    `events`.  how_many=None -> all of them."""
    coords = []
    for k, (kind, rel) in enumerate(events):
        coords.append({'kind': 'kill', 'at': k})
        if kind in ('open', 'write', 'mkdir', 'rename', 'remove', 'utime'):
            coords.append({'kind': 'oserror', 'at': k,
                           'errno': ('ENOSPC', 'EIO', 'EACCES')[k % 3],
                           'persist': bool(k % 2)})
    if how_many is None or how_many >= len(coords):
        return coords
    # bias: events on the find cache, the depfile and the build file
    hot = [c for c in coords
           if os.path.basename(events[c['at']][1]) in
           ('.bfg_find_cache', '.bfg_find_deps', 'Makefile', 'build.ninja')
           or events[c['at']][1].endswith('.pc')]
    pick = []
    n_hot = min(len(hot), (how_many * 2 + 2) // 3)
    pick += rng.sample(hot, n_hot)
    rest = [c for c in coords if c not in pick]
    pick += rng.sample(rest, min(len(rest), how_many - len(pick)))
    return pick


def run_case(seed, root, params=None):
    params = params or {}
    rng = random.Random(seed)
    REF_CACHE.clear()
    backend = rng.choice(params.get('backends', ['make', 'ninja']))
    cfg = c08.make_config(rng, backend)
    cfg['seed'] = seed
    cfg['bufsize'] = rng.choice([256, 512, 1024, 4096, 8192])
    allow = None
    proj = G.RegenGen(rng, backend, allow).generate()
    w = c08.setup_world(root, proj, cfg)
    sim = S.Sim(w, proj, cfg)
    results = []       # one entry per crash point
    stats = {}
    saved = root + '.saved'
    try:
        victim = rng.choice(['backend', 'backend', 'backend', 'regenerate',
                             'lazy', 'configure', 'first-configure',
                             'reconfigure'])
        pre_ops = []
        if victim != 'first-configure':
            pre_ops.append(['pre', 'configure'])
            if rng.random() < 0.5:
                pre_ops.append(['pre', 'backend'])
        hist0 = C10History(sim)
        run_ops(hist0, pre_ops)
        edits, label = ([], 'none') if victim == 'first-configure' else \
            trigger_edit(rng, sim, proj)
        for e in edits:
            sim.apply_edit(e)
        how = 'configure' if victim == 'first-configure' else victim
        if victim == 'reconfigure':
            # ('@W@' = this world's root, substituted when the run starts)
            how = 'reconfigure:' + rng.choice(RECONF_ARGS)
        n_follow = rng.randint(1, 2)
        follow_kinds = ['backend', 'backend', 'backend', 'lazy', 'regenerate']
        followups = [['attempt', rng.choice(follow_kinds)]
                     for _ in range(n_follow)]
        script_mode = rng.random() < 0.2 and victim != 'first-configure'
        # the project moves on between the interrupted run and the next
        # attempt: the trigger edit is taken back, or a file appears in a
        # directory the interrupted run was (or was not yet) told to watch
        post_edits = []
        if not script_mode and victim != 'first-configure' and \
           rng.random() < (0.8 if label == 'mkdir' else 0.4):
            x = rng.random()
            e0 = edits[0] if edits else None
            if e0 and e0[0] == 'write' and label == 'add_matching' and \
               x < 0.5:
                post_edits = [['remove', e0[1]]]
            elif e0 and e0[0] == 'mkdir' and x < 0.8:
                # a file that a recursive search below the new directory's
                # parent would match, if there is one
                exts = [os.path.splitext(s_.facts['pattern'])[1]
                        for s_ in proj.stmts('find')
                        if s_.facts.get('base') == os.path.dirname(e0[1])
                        and '/**/' in s_.facts.get('pattern', '')]
                ext = rng.choice([e for e in exts if e] or ['.c'])
                rel = '{}/late{}{}'.format(e0[1], rng.randrange(100), ext)
                post_edits = [['write', rel, G.c_source(rel)]]
                if rng.random() < 0.8:
                    # what notices (or not) is the backend
                    followups[0] = ['attempt', 'backend']
            else:
                lib0 = next(s_ for s_ in proj.stmts('find')
                            if s_.var == 'lib_src')
                rel = '{}/late{}.c'.format(lib0.facts['base'],
                                           rng.randrange(100))
                post_edits = [['write', rel, G.c_source(rel)]]
        w.save_state(saved)
        base_ops = pre_ops + edits

        conf0 = list(proj.conf_args)

        def one(fault, extra_edits=(), post_victim=()):
            w.restore_state(saved)
            proj.conf_args[:] = conf0
            sim.stats = {}
            h = C10History(sim)
            ops = list(extra_edits) + [['victim', how, fault]] + \
                list(post_victim) + followups
            run_ops(h, ops, start=len(base_ops))
            for k, n in sim.stats.items():
                stats[k] = stats.get(k, 0) + n
            results.append({'ops': base_ops + ops, 'hist': h,
                            'fault': fault})
            return h

        if script_mode:
            fops, orig_text, what, fname = script_fault_ops(rng, sim)
            fix = [['write', fname, orig_text + '# fixed\n']] \
                if rng.random() < 0.6 else []
            one({'kind': 'script', 'what': what}, fops, fix)
        else:
            # census: fault-free victim run to learn the event stream
            w.restore_state(saved)
            proj.conf_args[:] = conf0
            hc = C10History(sim)
            n0 = sim.world.log_len('invocations')
            run_ops(hc, [['victim', how, None]])
            inv = sim.world.read_jsonl('invocations')[n0:]
            events = inv[0]['events'] if inv else []
            if hc.trace and hc.trace[-1][0] == 'victim' and \
               hc.trace[-1][2] == 0:
                ok, ref = hc.reference()
                diff = sim.diff_files(declared_outputs(sim), ref) if ok \
                    else []
                if diff:
                    hc.violations.append(Violation(
                        PROP, 'uninterrupted-equals-fresh',
                        'a fault-free `{}` over the existing build '
                        'directory leaves {} different from a configure '
                        'into an empty directory'.format(how, diff),
                        {'backend=' + backend, 'victim=' + how.split(':')[0]}
                        | {'stale:' + os.path.basename(d) for d in diff},
                        len(base_ops)))
                    results.append({'ops': base_ops + [['victim', how,
                                                        None]],
                                    'hist': hc, 'fault': None})
            stats['census_events'] = stats.get('census_events', 0) + \
                len(events)
            n = params.get('points_per_scenario')
            all_coords = coordinates(events, rng, None)
            key = 'scenarios_exhaustive' if (n is None or
                                             n >= len(all_coords)) \
                else 'scenarios_sampled'
            stats[key] = stats.get(key, 0) + 1
            for fault in coordinates(events, rng, n):
                h = one(fault, post_victim=post_edits)
                if h.violations and not params.get('all_points'):
                    break
            if rng.random() < 0.3 and events:
                # a fault sequence: the first follow-up is faulted as well
                f1 = rng.choice(coordinates(events, rng))
                f2 = dict(rng.choice(coordinates(events, rng)))
                save_follow = list(followups)
                followups[:] = [['attempt', followups[0][1], f2]] + \
                    [['attempt', rng.choice(follow_kinds)]] + followups[1:]
                one(f1)
                followups[:] = save_follow
    finally:
        shutil.rmtree(saved, ignore_errors=True)
        if not os.environ.get('BFGSIM_KEEP'):
            w.destroy()
    # the recorded project carries the original command line (the victim's
    # own arguments are part of the history)
    try:
        proj.conf_args[:] = conf0
    except NameError:
        pass
    return {'proj': proj, 'cfg': cfg, 'results': results, 'stats': stats,
            'victim': victim, 'trigger': label, 'script_mode': script_mode,
            'post_edits': bool(post_edits)}


# -- check interface --------------------------------------------------------------

PARAMS = {
    'quick': {'budget': 80, 'points_per_scenario': 10},
    # thorough: every crash point of a scenario, unless it has more than 160
    # coordinates (then a biased sample of 160; such scenarios are counted
    # under `scenarios_sampled`, the others under `scenarios_exhaustive`)
    'thorough': {'budget': 1200, 'points_per_scenario': 160,
                 'case_timeout': 1500},
}

EVIDENCE = {
    'level': 'fault_enumeration',
    'rule': ('one scenario = generated project + pre-state + one trigger '
             'edit + victim run (configure / regenerate / regenerate --lazy '
             '/ backend-launched) + 1-2 follow-up attempts; one evaluation = '
             'one crash point (kill or OSError at a numbered mutation event '
             'of the victim run, or a script/rule-emission exception) '
             'followed by the follow-ups; in the thorough tier every event '
             'index of each sampled scenario is enumerated; distinct = '
             'distinct (victim kind, trigger, fault kind, site class '
             '(event kind x file role), follow-up kinds); non-trivial = the '
             'planned fault actually fired'),
    'real': ['bfg9000 from /repo working tree', 'GNU make 4.3', '/bin/sh'],
    'stubs': ['cc/c++/ar (hashing stubs)', 'clock (logical mtimes)',
              'kill = os._exit(137) at an audit event; torn writes at '
              'buffer boundaries (buffer size drawn per scenario)',
              'OSError raised from the audit hook / write proxy'],
    'assumptions': [
        'kill model is process death: data handed to the kernel survives '
        '(no power-loss model)',
        'mutation events = Python audit events open(write)/mkdir/remove/'
        'rename/utime/... plus one event per buffer flush',
        'compile_commands.json and .bfg_environ are not declared outputs of '
        'the regeneration step and are not in the oracle',
    ],
}


def summarise(case):
    vios, shapes, replay = [], set(), None
    n_nontrivial = 0
    for r in case['results']:
        h = r['hist']
        f = r['fault'] or {}
        fired = h.fired
        site = site_of(fired['event']) if fired else \
            ('script:' + f.get('what', '') if f.get('kind') == 'script'
             else 'not-fired')
        shape = '|'.join([case['victim'], case['trigger'],
                          f.get('kind', ''), site,
                          ','.join(o[1] for o in r['ops']
                                   if o[0] == 'attempt')])
        if h.nontrivial:
            n_nontrivial += 1
            shapes.add(hashlib.sha256(shape.encode()).hexdigest()[:16])
        for v in h.violations:
            vios.append((v.to_json(), r))
    out_v = []
    rep = None
    if vios:
        v, r = vios[0]
        rep = {'property': PROP, 'seed': case['seed'],
               'project': case['proj'].to_json(), 'cfg': case['cfg'],
               'ops': r['ops']}
        # one violation per distinct signature per scenario
        seen = set()
        for v, r in vios:
            key = (v['oracle'], tuple(v['features']))
            if key not in seen:
                seen.add(key)
                out_v.append(v)
        out_v = out_v[:1]
    stats = dict(case['stats'])
    stats['scenarios'] = 1
    if case.get('post_edits'):
        stats['scenarios_with_edit_before_attempt'] = 1
    stats['crash_points'] = len(case['results'])
    first = case['results'][0] if case['results'] else None
    return {
        'seed': case['seed'],
        'violations': out_v,
        'stats': dict(stats, **{'backend.' + case['proj'].backend: 1}),
        'nontrivial': n_nontrivial > 0,
        'shape': '',           # distinctness is per crash point: see below
        'shapes': sorted(shapes),
        'sets': {'crash_sites': sorted(
            k[len('site.'):] for k in case['stats'] if k.startswith('site.'))},
        'points': len(case['results']),
        'digest': hashlib.sha256(repr(
            [r['hist'].trace for r in case['results']]).encode())
        .hexdigest()[:16],
        'sample': {
            'seed': case['seed'], 'victim': case['victim'],
            'trigger': case['trigger'],
            'script': case['proj'].script_text('build.bfg').split('\n'),
            'crash_points': len(case['results']),
            'first_history': first and [
                o if o[0] != 'write' else o[:2] + ['...']
                for o in first['ops']],
        },
        'replay': rep,
        'wall': case.get('wall'),
    }


def evidence_extra(cases):
    shapes = set()
    points = 0
    for c in cases:
        shapes |= set(c.get('shapes', []))
        points += c.get('points', 0)
    return {'evaluations': max(points, 1), 'scenarios': len(cases),
            'distinct_nontrivial': len(shapes)}


def replay(rep, root):
    proj = G.Project.from_json(rep['project'])
    hist = execute(root, proj, rep['cfg'], rep['ops'])
    return [v.to_json() for v in hist.violations]


def minimise(rep, v, root, deadline):
    from .minimise import minimise_replay

    def run(r):
        try:
            return replay(r, root)
        except HarnessError:
            return []
    return minimise_replay(rep, v, run, deadline, max_runs=60)
