"""Launching bfg9000 and the backend inside a world."""

import json
import os
import signal
import subprocess
import sys
import time

from . import world as _w
from .world import HarnessError

HERE = os.path.dirname(os.path.abspath(__file__))
VERIF = os.path.dirname(HERE)
PY = '/venv/bin/python'
BASE_PATH = '/venv/bin:/usr/bin:/bin'

STUB_TOOLS = ('cc', 'c++', 'ar', 'simtool', 'ninja', 'patchelf')
MSVC_TOOLS = ('cl', 'link', 'lib')


# Detection queries answered in sh (1 ms) before the Python stub (20 ms) starts;
# same answers as stubs/tool.py gcc_like().
GCC_FAST = r"""case " $* " in
*" -Wl,--version "*) echo ' /usr/lib/gcc/collect2 --version' >&2
  echo 'GNU ld (GNU Binutils for Debian) 2.40'; exit 0;;
*" --version "*) echo '@T@ (GCC) 12.2.0'
  echo 'Copyright (C) 2022 Free Software Foundation, Inc.'; exit 0;;
*" -? "*|*" /? "*) echo 'unrecognized option' >&2; exit 1;;
*" -print-search-dirs "*) echo 'install: /usr/lib/gcc'
  echo 'programs: =/usr/bin'; echo 'libraries: =/usr/lib'; exit 0;;
*" -print-sysroot "*) echo; exit 0;;
*" -dumpmachine "*) echo x86_64-linux-gnu; exit 0;;
*" -Wp,-v "*) echo '#include "..." search starts here:'
  echo '#include <...> search starts here:'; echo ' /usr/include'
  echo 'End of search list.'; exit 0;;
esac
"""


def _write_exe(path, text):
    with open(path, 'w') as f:
        f.write(text)
    os.chmod(path, 0o755)


def _repo_export():
    # BFGSIM_REPO=<dir>: run a scratch copy of bfg9000 instead of /repo (used
    # for sensitivity experiments and for validating pinned replays against
    # the tree before a fix)
    repo = os.environ.get('BFGSIM_REPO')
    return 'export BFGSIM_REPO={0}\n'.format(repo) if repo else ''


def install_stubs(world, *, hashseed='0', msvc=False, tools=None,
                  touch=True, config=None, real_tools=None):
    """Populate <world>/bin with the stub toolchain, the bfg9000 shim and the
    tick-stamping `touch`."""
    tool_py = os.path.join(HERE, 'stubs', 'tool.py')
    names = list(tools if tools is not None else STUB_TOOLS)
    if msvc:
        names += list(MSVC_TOOLS)
    for t in (real_tools or ()):
        _write_exe(os.path.join(world.bin, t),
                   '#!/bin/sh\nexec {} -SE {} {} real-{} "$@"\n'
                   .format(PY, tool_py, world.root, t))
    names = [t for t in names if t not in (real_tools or ())]
    for t in names:
        fast = GCC_FAST.replace('@T@', t) if t in ('cc', 'c++') else ''
        _write_exe(os.path.join(world.bin, t),
                   '#!/bin/sh\n{}exec {} -SE {} {} {} "$@"\n'
                   .format(fast, PY, tool_py, world.root, t))
    for n in sorted(os.listdir('/venv/bin')):
        if n.startswith('bfg9000-') or n == 'pysetenv':
            dst = os.path.join(world.bin, n)
            if os.path.lexists(dst):
                continue
            if os.environ.get('BFGSIM_REPO'):
                # helper tools (depfixer...) must come from the same tree
                _write_exe(dst, '#!/bin/sh\nPYTHONPATH={} exec {} "$@"\n'
                           .format(os.environ['BFGSIM_REPO'],
                                   os.path.join('/venv/bin', n)))
            else:
                os.symlink(os.path.join('/venv/bin', n), dst)
    for prog in ('bfg9000', '9k'):
        _write_exe(
            os.path.join(world.bin, prog),
            '#!/bin/sh\n{}BFGSIM_TAG=backend PYTHONHASHSEED={} '
            'PYTHONDONTWRITEBYTECODE=1 exec {} {} {} "$0" "$@"\n'
            .format(_repo_export(), hashseed, PY,
                    os.path.join(HERE, 'shim_main.py'), world.root))
    if touch:
        _write_exe(
            os.path.join(world.bin, 'touch'),
            '#!/bin/sh\nt=$(($(cat {0}/clock)+1)); echo $t > {0}/clock\n'
            'exec /usr/bin/touch -d "@$(({1}+t))" "$@"\n'
            .format(world.root, _w.EPOCH))
    if touch:
        # cp / ln as used by copy_file rules and custom commands go through
        # the stub tool too (tick stamping, step log): see tool.py copy_like
        for tool in ('cp', 'ln'):
            _write_exe(os.path.join(world.bin, tool),
                       '#!/bin/sh\nexec {} -SE {} {} {} "$@"\n'
                       .format(PY, tool_py, world.root, tool))
    cfg = {'clock_mode': 'strict', 'bufsize': 4096, 'seed': 0,
           'launch_limit': 3}
    cfg.update(config or {})
    with open(os.path.join(world.log, 'config.json'), 'w') as f:
        json.dump(cfg, f)
    os.makedirs(os.path.join(world.root, 'home'), exist_ok=True)


def base_env(world, extra=None):
    env = {
        'PATH': world.bin + ':' + BASE_PATH,
        'HOME': os.path.join(world.root, 'home'),
        'LANG': 'C',
        'LC_ALL': 'C',
        'BFG9000': os.path.join(world.bin, 'bfg9000'),
    }
    if extra:
        env.update(extra)
    return env


def preload():
    """Import bfg9000 (from /repo's working tree, via /venv's editable
    install) once, so that forked children start warm.  Only imports."""
    import bfg9000.driver
    import bfg9000.build
    from bfg9000.builtins import init as builtin_init
    from bfg9000.tools import init as tools_init
    builtin_init()
    tools_init()
    from bfg9000.backends import list_backends
    list_backends()
    return os.path.dirname(bfg9000.__file__)


class Result:
    def __init__(self, status, output, inv=None, timed_out=False):
        self.status = status
        self.output = output
        self.inv = inv or []          # invocation records of this op
        self.steps = []               # step-log records of this op
        self.timed_out = timed_out

    @property
    def ok(self):
        return self.status == 0

    def __repr__(self):
        return 'Result(status={}, inv={}, steps={})'.format(
            self.status, [i.get('outcome') for i in self.inv],
            len(self.steps))


def _reset_launches(world):
    with open(os.path.join(world.log, 'launches'), 'w') as f:
        f.write('0')


def set_fault(world, fault):
    p = os.path.join(world.log, 'fault.json')
    if fault is None:
        if os.path.exists(p):
            os.remove(p)
    else:
        with open(p, 'w') as f:
            json.dump(fault, f)


def fault_pending(world):
    return os.path.exists(os.path.join(world.log, 'fault.json'))


def _wait(pid, timeout):
    deadline = time.monotonic() + timeout
    delay = 0.001
    while True:
        got, status = os.waitpid(pid, os.WNOHANG)
        if got:
            return status
        if time.monotonic() > deadline:
            try:
                os.killpg(pid, signal.SIGKILL)
            except ProcessLookupError:
                pass
            os.waitpid(pid, 0)
            return None
        time.sleep(delay)
        delay = min(delay * 2, 0.02)


def run_bfg(world, args, *, env=None, cwd=None, prog=None, mode='fork',
            hashseed='0', fault=None, timeout=120, tag='driver'):
    """Run one bfg9000 invocation under the shim.

    mode 'fork': child of this (bfg9000-preloaded) process; 'fresh': a new
    interpreter with its own PYTHONHASHSEED."""
    env = dict(env if env is not None else base_env(world))
    cwd = cwd or world.root
    prog = prog or os.path.join(world.bin, 'bfg9000')
    _reset_launches(world)
    n_inv = world.log_len('invocations')
    outpath = os.path.join(world.log, 'last.out')
    if fault is not None:
        set_fault(world, fault)

    if mode == 'fork':
        sys.stdout.flush()
        sys.stderr.flush()
        pid = os.fork()
        if pid == 0:
            try:
                os.setsid()
                fd = os.open(outpath, os.O_WRONLY | os.O_CREAT | os.O_TRUNC,
                             0o644)
                os.dup2(fd, 1)
                os.dup2(fd, 2)
                nul = os.open(os.devnull, os.O_RDONLY)
                os.dup2(nul, 0)
                os.chdir(cwd)
                os.environ.clear()
                os.environ.update(env)
                sys.dont_write_bytecode = True
                import io
                sys.stdout = io.TextIOWrapper(io.FileIO(1, 'w', closefd=False),
                                              line_buffering=True)
                sys.stderr = io.TextIOWrapper(io.FileIO(2, 'w', closefd=False),
                                              line_buffering=True)
                from .shim_main import run_in_child
                run_in_child(world.root, prog, list(args), tag=tag)
            except BaseException:   # noqa
                import traceback
                traceback.print_exc()
            finally:
                os._exit(70)
        status = _wait(pid, timeout)
        if status is None:
            raise HarnessError('bfg9000 timed out: {}'.format(args))
        if os.WIFSIGNALED(status):
            rc = 128 + os.WTERMSIG(status)
        else:
            rc = os.WEXITSTATUS(status)
    else:
        fenv = dict(env)
        cmd = [PY, os.path.join(HERE, 'shim_main.py'), world.root, prog]
        cmd += list(args)
        penv = dict(fenv)
        penv.update({'PYTHONHASHSEED': str(hashseed), 'BFGSIM_TAG': tag,
                     'PYTHONDONTWRITEBYTECODE': '1'})
        if os.environ.get('BFGSIM_REPO'):
            penv['BFGSIM_REPO'] = os.environ['BFGSIM_REPO']
        with open(outpath, 'wb') as out:
            p = subprocess.Popen(cmd, env=penv, cwd=cwd, stdout=out,
                                 stderr=subprocess.STDOUT,
                                 stdin=subprocess.DEVNULL,
                                 start_new_session=True)
            try:
                rc = p.wait(timeout=timeout)
            except subprocess.TimeoutExpired:
                os.killpg(p.pid, signal.SIGKILL)
                p.wait()
                raise HarnessError('bfg9000 timed out: {}'.format(args))
    with open(outpath, errors='replace') as f:
        output = f.read()
    if rc == 70:
        raise HarnessError('shim failed:\n' + output)
    world.normalise()
    inv = world.read_jsonl('invocations')[n_inv:]
    return Result(rc, output, inv)


def run_make(world, goals=(), *, env=None, timeout=120, extra_args=()):
    env = dict(env if env is not None else base_env(world))
    env.pop('MAKEFLAGS', None)
    env.pop('MAKELEVEL', None)
    _reset_launches(world)
    n_inv = world.log_len('invocations')
    n_steps = world.log_len('steps')
    cmd = ['make', '-C', world.build] + list(extra_args) + list(goals)
    p = subprocess.Popen(cmd, env=env, cwd=world.root, stdout=subprocess.PIPE,
                         stderr=subprocess.STDOUT, stdin=subprocess.DEVNULL,
                         start_new_session=True)
    try:
        out, _ = p.communicate(timeout=timeout)
        timed_out = False
    except subprocess.TimeoutExpired:
        try:
            os.killpg(p.pid, signal.SIGKILL)
        except ProcessLookupError:
            pass
        out, _ = p.communicate()
        timed_out = True
    world.normalise()
    r = Result(p.returncode, out.decode(errors='replace'),
               world.read_jsonl('invocations')[n_inv:], timed_out)
    r.steps = world.read_jsonl('steps')[n_steps:]
    if timed_out:
        raise HarnessError('make timed out after {} bfg9000 launches:\n{}'
                           .format(len(r.inv), r.output[-2000:]))
    return r
