"""C09 - the saved configuration is the only input of later regenerations.

A configuration (environment, toolchain script mutating the variable store,
install dirs, library mode, compdb switch, project arguments) is chosen at
configure time; later invocations (regenerate, the backend-launched lazy
regeneration, env, run) happen under a perturbed ambient environment, cwd and
argv[0].  Oracles: build files and the snapshot after any later regeneration
equal those of the configure run; `env`/`run` show exactly the reference
variable map (a plain dict driven by the same operation sequence as the
toolchain script); save/load/downgrade round trips; initial + changes ==
current."""

import copy
import hashlib
import json
import os
import platform
import random
import shutil
import subprocess

from . import bfgrun as R
from . import gen as G
from . import sim as S
from . import world as W
from .sim import Violation
from .world import HarnessError

PROP = 'C09'

VALUE_POOL = ['1', '', 'plain', 'two words', 'a=b', '$HOME', '${X}', "it's",
              'say "hi"', 'back\\slash', 'tab\there', 'café', '*?[x]',
              '-O2 -g', ';|&', '~/x', '#hash', '%p', ' lead', 'trail ']
NAME_POOL = ['FOO', 'BAR_1', 'lower', 'MiXeD', 'X', 'LONGER_NAME_WITH_PARTS',
             'TERM', 'EDITOR', 'LANGUAGE', 'weird.name', 'dash-name']
FLAG_POOL = ['-O1', '-O2', '-g', '-DFOO', '-DBAR=2', '-I/opt/inc', '-Wall']
LDFLAG_POOL = ['-L/opt/lib', '-Wl,--as-needed', '-g']


class ToolchainGen:
    """Random toolchain script + the dict model of what it does."""

    def __init__(self, rng, model, world):
        self.rng = rng
        self.m = model          # plain dict, mutated in lock step
        self.w = world
        self.lines = []
        self.used = set()

    def emit(self, line):
        self.lines.append(line)

    def rand_name(self):
        return self.rng.choice(NAME_POOL)

    def rand_value(self):
        return self.rng.choice(VALUE_POOL)

    def op(self):
        rng, m = self.rng, self.m
        kinds = ['set', 'set', 'del', 'pop', 'setdefault', 'update',
                 'update_kw', 'ior', 'compile_options', 'link_options',
                 'compiler', 'popitem', 'which', 'lib_options', 'clear',
                 'append', 'append']
        k = rng.choice(kinds)
        self.used.add(k)
        if k == 'set':
            n, v = self.rand_name(), self.rand_value()
            self.emit('environ[{!r}] = {!r}'.format(n, v))
            m[n] = v
        elif k == 'append':
            # read-modify-write: not idempotent over its own earlier effect,
            # so it only stays stable if every run starts from the saved
            # *initial* variables
            n = rng.choice(['CFLAGS', 'CPPFLAGS', 'FOO', 'LDFLAGS'])
            v = rng.choice([' -DTC', ' -g', ' extra'])
            self.emit('environ[{0!r}] = environ.get({0!r}, "") + {1!r}'
                      .format(n, v))
            m[n] = m.get(n, '') + v
        elif k == 'del':
            cands = [n for n in m if n in NAME_POOL]
            if not cands:
                return
            n = rng.choice(sorted(cands))
            self.emit('del environ[{!r}]'.format(n))
            del m[n]
        elif k == 'pop':
            n = self.rand_name()
            self.emit('environ.pop({!r}, None)'.format(n))
            m.pop(n, None)
        elif k == 'popitem':
            # only when the last inserted key is one of ours (never PATH & co)
            last = next(reversed(m)) if m else None
            if last not in NAME_POOL:
                return
            self.emit('environ.popitem()')
            m.popitem()
        elif k == 'setdefault':
            n, v = self.rand_name(), self.rand_value()
            self.emit('environ.setdefault({!r}, {!r})'.format(n, v))
            m.setdefault(n, v)
        elif k == 'update':
            d = {self.rand_name(): self.rand_value()
                 for _ in range(rng.randint(1, 3))}
            self.emit('environ.update({!r})'.format(d))
            m.update(d)
        elif k == 'update_kw':
            n, v = rng.choice(['FOO', 'BAR_1', 'lower', 'X']), \
                self.rand_value()
            self.emit('environ.update({}={!r})'.format(n, v))
            m[n] = v
        elif k == 'ior':
            d = {self.rand_name(): self.rand_value()}
            self.emit('environ |= {!r}'.format(d))
            m.update(d)
        elif k == 'compile_options':
            flags = rng.sample(FLAG_POOL, rng.randint(1, 3))
            lang = rng.choice(['c', 'c++'])
            self.emit('compile_options({!r}, {!r})'.format(flags, lang))
            m['CFLAGS' if lang == 'c' else 'CXXFLAGS'] = ' '.join(flags)
        elif k == 'link_options':
            flags = rng.sample(LDFLAG_POOL, rng.randint(1, 2))
            self.emit('link_options({!r})'.format(flags))
            m['LDFLAGS'] = ' '.join(flags)
        elif k == 'lib_options':
            self.emit("lib_options(['-lm'])")
            m['LDLIBS'] = '-lm'
        elif k == 'compiler':
            name = rng.choice(['mycc', 'cc'])
            self.emit('compiler({!r}, {!r})'.format(name, 'c'))
            m['CC'] = name
        elif k == 'which':
            # a resolved tool location becomes part of the configuration
            self.emit("environ['CC'] = which('mycc', resolve=True)")
            m['CC'] = self.resolve('mycc')
        elif k == 'clear':
            if rng.random() < 0.7:
                return
            path = m.get('PATH', '')
            self.emit('_p = environ.get("PATH", "")')
            self.emit('environ.clear()')
            self.emit('environ["PATH"] = _p')
            m.clear()
            m['PATH'] = path

    def resolve(self, name):
        for d in self.m.get('PATH', '').split(':'):
            p = os.path.join(d, name)
            if os.path.isfile(p) and os.access(p, os.X_OK):
                return os.path.realpath(p)
        return name

    def generate(self, n):
        for _ in range(n):
            self.op()
        if self.rng.random() < 0.3:
            self.emit("install_dirs(prefix={!r})".format(
                os.path.join(self.w.root, 'tcprefix')))
            self.used.add('install_dirs')
        self.cross = False
        if self.rng.random() < 0.25:
            if self.rng.random() < 0.5:
                self.emit("target_platform('linux')")
            else:
                # another architecture: a cross build
                self.emit("target_platform('linux', 'i686')")
                self.cross = True
            self.used.add('target_platform')
        return '# toolchain generated by bfgsim\n' + \
            '\n'.join(self.lines) + '\n'


def parse_env_output(text):
    out = {}
    for line in text.split('\n'):
        if '=' in line:
            k, v = line.split('=', 1)
            out[k] = v
    return out


def parse_env0(data):
    out = {}
    for item in data.split('\0'):
        if '=' in item:
            k, v = item.split('=', 1)
            out[k] = v
    return out


def perturb(rng, env, w):
    """An ambient environment that differs from the configure-time one."""
    e = dict(env)
    labels = []
    for _ in range(rng.randint(1, 4)):
        x = rng.random()
        if x < 0.25 and e:
            k = rng.choice(sorted(e))
            if k != 'PATH':
                del e[k]
                labels.append('removed')
        elif x < 0.5:
            k = rng.choice(['CC', 'CFLAGS', 'CPPFLAGS', 'LDFLAGS', 'AR',
                            'CXX', 'LDLIBS', 'DESTDIR', 'MAKE', 'NINJA',
                            'BFG9000', 'DEPFIXER', 'PATCHELF', 'DOPPEL',
                            'MKDIR_P'])
            e[k] = rng.choice(['/bin/false', '-O0 -DAMBIENT', 'gcc',
                               '/tmp/other'])
            labels.append('tool-var-changed')
        elif x < 0.7:
            e[rng.choice(NAME_POOL)] = 'ambient-' + rng.choice(VALUE_POOL)
            labels.append('added')
        elif x < 0.85:
            parts = e.get('PATH', '').split(':')
            alt = os.path.join(w.root, 'bin2')
            e['PATH'] = ':'.join([alt] + parts)
            labels.append('path-prefixed')
        else:
            e['PATH'] = '/usr/bin:/bin'
            labels.append('path-minimal')
    e['HOME'] = rng.choice([e.get('HOME', '/'), '/nonexistent', w.root])
    if rng.random() < 0.12:
        # started from a 32-bit shell (`linux32 make`): uname reports i686
        e['BFGSIM_PERSONALITY'] = 'linux32'
        labels.append('personality')
    return e, labels


def downgrade(data, to_version):
    """Rewrite a v17 snapshot in an older format by inverting the documented
    upgrade steps; returns None when the older format cannot express it."""
    d = copy.deepcopy(data)
    v = d['version']
    x = d['data']
    if v != 17:
        return None
    if to_version < 17:
        from bfg9000 import platforms
        from bfg9000.path import InstallRoot
        plat = platforms.target.from_json(x['target_platform'])
        for i in ('datadir', 'mandir'):
            if x['install_dirs'].get(i) != \
               plat.install_dirs[InstallRoot[i]].to_json():
                return None
            del x['install_dirs'][i]
    if to_version < 16:
        if x['compdb'] is not True:
            return None
        del x['compdb']
    if to_version < 15:
        if x['mopack']:
            return None
        del x['mopack']
        var = x.pop('variables')
        x['initial_variables'] = var['initial']
        x['variables'] = var['current']
    if to_version < 14:
        for i in ('host_platform', 'target_platform'):
            p = x[i]
            if p.get('arch') != platform.machine() or \
               p['genus'] != p['species']:
                return None
            x[i] = p['species']
    if to_version < 13:
        # v13 added initial_variables (= variables) and the toolchain
        if x['toolchain'] != {'path': None} or \
           x['initial_variables'] != x['variables']:
            return None
        del x['toolchain']
        del x['initial_variables']
    if to_version < 12:
        # v12 split platform into host_platform and target_platform
        if x['host_platform'] != x['target_platform']:
            return None
        x['platform'] = x.pop('host_platform')
        del x['target_platform']
    if to_version < 11:
        # v11 added the DESTDIR flag to every stored path
        for i in ('bfgdir', 'srcdir', 'builddir'):
            if x[i][-1] is not False:
                return None
            x[i] = x[i][:-1]
        for k, v in x['install_dirs'].items():
            if v is None or v[-1] is not False:
                return None
            x['install_dirs'][k] = v[:-1]
    d['version'] = to_version
    return d


def apply_changes(initial, changes):
    out = dict(initial)
    for k, v in changes.items():
        if v is None:
            out.pop(k, None)
        else:
            out[k] = v
    return out


def inprocess_store_check(rng, script_lines, initial):
    """EnvVarDict driven by the same statements as the toolchain script:
    initial + changes must reproduce current, also after a JSON round trip."""
    from bfg9000.environment import EnvVarDict
    d = EnvVarDict(dict(initial))
    g = {'environ': d, 'which': lambda *a, **k: 'mycc',
         'compile_options': lambda *a, **k: None,
         'link_options': lambda *a, **k: None,
         'lib_options': lambda *a, **k: None,
         'compiler': lambda *a, **k: None,
         'install_dirs': lambda *a, **k: None,
         'target_platform': lambda *a, **k: None}
    problems = []
    for i, line in enumerate(script_lines):
        try:
            exec(line, g)
        except Exception as e:   # noqa
            problems.append('line {} raised {!r}'.format(line, e))
            break
        cur = g['environ']
        if not isinstance(cur, EnvVarDict):
            problems.append('store replaced by {} after {!r}'.format(
                type(cur).__name__, line))
            break
        if apply_changes(cur.initial, cur.changes) != dict(cur):
            problems.append(
                'initial + changes != current after {!r}: changes={!r}'
                .format(line, cur.changes))
            break
    cur = g['environ']
    if not problems and isinstance(cur, EnvVarDict):
        again = EnvVarDict.from_json(json.loads(json.dumps(cur.to_json())))
        if dict(again) != dict(cur) or again.initial != cur.initial:
            problems.append('to_json/from_json round trip differs')
        elif apply_changes(again.initial, again.changes) != dict(again):
            problems.append('initial + changes != current after reload')
    return problems


def gen_scenario(seed, root, params):
    """Everything about a case is decided here; execute() is deterministic
    given the scenario.  World paths appear as the literal root and are
    replaced by $W when a scenario is stored."""
    rng = random.Random(seed)
    backend = rng.choice(params.get('backends', ['make', 'ninja']))
    w = W.World(root, create=False)
    proj = G.GraphGen(rng, backend, allow={'global_options', 'install',
                                           'pkg_config', 'test',
                                           'static_mode'}).generate()
    main = proj.scripts['build.bfg']
    proj.scripts['options.bfg'] = [
        G.Stmt('argument', G.call('argument', 'flavour', default='vanilla')),
        G.Stmt('argument', G.call('argument', 'turbo', action='enable')),
        G.Stmt('argument', G.call('argument', 'level', type=G.Raw('int'),
                                  default=1)),
    ]
    main.insert(1, G.Stmt('global_options', (
        "global_options(['-DFLAVOUR=' + str(argv.flavour), '-DTURBO=' + "
        "str(int(bool(argv.turbo))), '-DLEVEL=' + str(argv.level)], "
        "lang='c')")))
    main.append(G.Stmt('info', "info('ARGV ' + repr(sorted(vars(argv)"
                               ".items())))"))
    if rng.random() < 0.4:
        # a tool found on the (saved) PATH at configure time
        main.append(G.Stmt('command', "command('usetool', cmd=["
                           "system_executable('mycc'), '--version'])"))
        proj.features.add('system_executable')
    if rng.random() < 0.6:
        proj.conf_args += [rng.choice(['--flavour=', '--x-flavour=']) +
                           rng.choice(['mint', 'a b', 'x=y'])]
    if rng.random() < 0.5:
        proj.conf_args += [rng.choice(['--enable-turbo', '--disable-turbo',
                                       '--x-enable-turbo'])]
    if rng.random() < 0.4:
        proj.conf_args += ['--level={}'.format(rng.randrange(5))]
    if rng.random() < 0.3:
        proj.conf_args += ['--prefix=' + os.path.join(
            w.root, 'pfx{}'.format(rng.randrange(9)))]
    if rng.random() < 0.2:
        proj.conf_args += ['--disable-compdb']
    if rng.random() < 0.2:
        proj.conf_args += ['--libdir=' + os.path.join(w.root, 'lib64')]

    env = R.base_env(w)
    env.pop('BFG9000', None)
    for _ in range(rng.randint(0, 4)):
        env[rng.choice(NAME_POOL)] = rng.choice(VALUE_POOL)
    if rng.random() < 0.4:
        env['CFLAGS'] = ' '.join(rng.sample(FLAG_POOL, 2))
    if rng.random() < 0.3:
        env['CPPFLAGS'] = '-DCPP=1'
    if rng.random() < 0.3:
        env['LDFLAGS'] = '-L/opt/amb'
    if rng.random() < 0.3:
        env['CC'] = rng.choice(['mycc', 'cc'])
    if rng.random() < 0.2:
        env['DESTDIR'] = '/tmp/stage'
    if rng.random() < 0.25:
        # backend / helper tools chosen explicitly at configure time
        k = rng.choice(['NINJA', 'MAKE', 'DOPPEL', 'PATCHELF'])
        env[k] = {'NINJA': os.path.join(w.bin, 'ninja'),
                  'MAKE': '/usr/bin/make', 'DOPPEL': '/venv/bin/doppel',
                  'PATCHELF': '/usr/bin/patchelf'}[k]
        if k == 'MAKE' and rng.random() < 0.6:
            # a make that does not call itself GNU Make (its version is
            # unknown at configure time): part of the saved configuration
            env[k] = os.path.join(w.bin, 'bsdmake')
    model = dict(env)
    tc_lines, used = [], set()
    if rng.random() < 0.75:
        tg = ToolchainGen(rng, model, w)
        text = tg.generate(rng.randint(1, 8))
        tc_lines, used = tg.lines, tg.used
        proj.toolchain = 'toolchain.bfg'
        proj.files['toolchain.bfg'] = text
        proj.tc_relative = rng.random() < 0.4
        if tg.cross and 'install_dirs' not in used and \
           not any(a.startswith(('--prefix', '--libdir'))
                   for a in proj.conf_args) and rng.random() < 0.7:
            # a cross build without any install directory: installation is
            # switched off, and must stay so
            proj.no_prefix = True
    later = []
    for i in range(params.get('later', 4)):
        amb, labels = perturb(rng, env, w)
        cwd = rng.choice([w.build, w.src, w.root, '/'])
        prog = rng.choice([os.path.join(w.bin, 'bfg9000'),
                           os.path.relpath(os.path.join(w.bin, 'bfg9000'),
                                           cwd)])
        kind = rng.choice(['regenerate', 'backend', 'env', 'env-u',
                           'run', 'run-I', 'downgrade', 'reload'])
        if kind == 'downgrade' and 'BFGSIM_PERSONALITY' in amb:
            # formats before v14 do not record the architecture: the
            # upgrade can only take the current machine's
            del amb['BFGSIM_PERSONALITY']
            labels = [x for x in labels if x != 'personality']
        later.append({'kind': kind, 'ambient': amb, 'labels': labels,
                      'spell': rng.choice(['phys', 'link']),
                      'cwd': cwd, 'prog': prog,
                      'lazy': rng.random() < 0.3,
                      'relbuild': rng.random() < 0.5,
                      'version': rng.choice([10, 11, 12, 13, 14, 15, 16])})
    return {'seed': seed, 'backend': backend, 'project': proj.to_json(),
            'via_link': rng.random() < 0.3,
            'env': env, 'model': model, 'tc_lines': tc_lines,
            'used': sorted(used), 'later': later}


def resolve_which(model_cc, w):
    return model_cc


def run_case(seed, root, params=None):
    params = params or {}
    w0 = W.World(root)        # creates the directories gen_scenario inspects
    cfg = {'clock_mode': 'strict', 'bufsize': 4096, 'seed': seed}
    R.install_stubs(w0, config=cfg, tools=R.STUB_TOOLS + ('mycc', 'myc++'))
    os.makedirs(os.path.join(w0.root, 'bin2'), exist_ok=True)
    shutil.copy2(os.path.join(w0.bin, 'mycc'),
                 os.path.join(w0.root, 'bin2', 'mycc'))
    scn = gen_scenario(seed, root, params)
    return execute(scn, root, fresh_world=False)


def execute(scn, root, fresh_world=True):
    seed = scn['seed']
    backend = scn['backend']
    cfg = {'clock_mode': 'strict', 'bufsize': 4096, 'seed': seed}
    if fresh_world:
        w = W.World(root)
        R.install_stubs(w, config=cfg,
                        tools=R.STUB_TOOLS + ('mycc', 'myc++'))
        with open(os.path.join(w.bin, 'bsdmake'), 'w') as f:
            f.write('#!/bin/sh\ncase "$1" in --version) echo "bmake '
                    '20200101"; exit 0;; esac\nexec /usr/bin/make "$@"\n')
        os.chmod(os.path.join(w.bin, 'bsdmake'), 0o755)
        os.makedirs(os.path.join(w.root, 'bin2'), exist_ok=True)
        shutil.copy2(os.path.join(w.bin, 'mycc'),
                     os.path.join(w.root, 'bin2', 'mycc'))
    else:
        w = W.World(root, create=False)
    proj = G.Project.from_json(scn['project'])
    env, model = scn['env'], scn['model']
    tc_lines, used = scn['tc_lines'], set(scn['used'])
    proj.materialise(w)
    sim = S.Sim(w, proj, cfg)
    sim.env = env
    # the same world reached through a symbolic link: another spelling of
    # every directory involved
    link = root + '-lnk'
    if os.path.lexists(link):
        os.remove(link)
    os.symlink(root, link)
    wl = W.World(link, create=False)
    use_link = bool(scn.get('via_link'))

    violations, trace, stats = [], [], {}
    feats0 = {'backend=' + backend} | {'tc.' + u for u in used}
    stats['backend.' + backend] = 1

    def vio(oracle, detail, feats=()):
        violations.append(Violation(PROP, oracle, detail,
                                    feats0 | set(feats), len(trace)))

    def spelled(path, how):
        if how == 'link' and use_link:
            return path.replace(root, link, 1) if path.startswith(root) \
                else path
        return path

    if use_link:
        # every configure of this case (the original one and the fresh
        # references) spells the directories through the link
        def configure_via_link(fault=None, mode='fork'):
            return R.run_bfg(w, [spelled(a, 'link') for a in
                                 proj.configure_args(w)], env=env,
                             cwd=wl.src, fault=fault, mode=mode)
        sim.configure = configure_via_link
        stats['configured_via_link'] = 1

    try:
        r = sim.configure()
        trace.append(['configure', r.status])
        if not r.ok:
            raise HarnessError('configure failed:\n' + r.output[-3000:] +
                               '\n' + proj.files.get('toolchain.bfg', ''))
        conf_files = sim.primary()
        with open(w.b('.bfg_environ')) as f:
            conf_snapshot = json.load(f)
        argv_line = [l for l in r.output.split('\n') if 'ARGV ' in l]

        # O3a: the variable store in-process (same statements)
        if tc_lines:
            for p in inprocess_store_check(None, tc_lines, env):
                vio('store-changes', p, {'inprocess'})
            stats['store_checks'] = 1
        # O2a: what the snapshot holds is the model
        if conf_snapshot['data']['variables']['current'] != model:
            a = conf_snapshot['data']['variables']['current']
            bad = sorted(k for k in set(a) | set(model)
                         if a.get(k) != model.get(k))
            vio('variables-model', 'saved variables differ from the '
                'reference map on {}: saved={} model={}'.format(
                    bad, {k: a.get(k) for k in bad},
                    {k: model.get(k) for k in bad}))
        if conf_snapshot['data']['variables']['initial'] != env:
            vio('variables-model', 'saved initial variables differ from the '
                'configure-time ambient environment')

        for i, lt in enumerate(scn['later']):
            if violations:
                break
            amb, labels = lt['ambient'], lt['labels']
            cwd, prog, kind = lt['cwd'], lt['prog'], lt['kind']
            sp = lt.get('spell', 'phys')
            cwd = spelled(cwd, sp)
            bdir = spelled(w.build, sp)
            lf = {'later=' + kind} | {'ambient.' + l for l in labels}
            stats['later.' + kind] = stats.get('later.' + kind, 0) + 1
            if kind == 'regenerate':
                lazy = lt['lazy']
                if lazy:
                    w.append('build.bfg', '# touched {}\n'.format(i))
                args = ['regenerate'] + (['--lazy'] if lazy else []) + \
                    [os.path.relpath(bdir, cwd)
                     if lt['relbuild'] else bdir]
                r = sim.bfg(args, env=amb, cwd=cwd, prog=prog)
                trace.append(['regenerate', lazy, r.status])
                if not r.ok:
                    vio('later-run-works', '`{}` under a perturbed ambient '
                        'fails:\n{}'.format(' '.join(args),
                                            r.output[-800:]), lf)
                    break
                if lazy:
                    conf_files = None   # script text changed: re-baseline
                check_after_regen(sim, w, vio, conf_files, conf_snapshot,
                                  argv_line, r.output, lf)
                if conf_files is None:
                    conf_files = sim.primary()
            elif kind == 'backend':
                w.append('build.bfg', '# touched {}\n'.format(i))
                r = sim.backend_run([sim.buildfile], env=dict(amb))
                trace.append(['backend', r.status,
                              [x.get('outcome') for x in r.inv]])
                if not r.ok:
                    vio('later-run-works', 'backend-launched regeneration '
                        'under a perturbed ambient fails:\n' +
                        r.output[-800:], lf)
                    break
                check_after_regen(sim, w, vio, None, conf_snapshot,
                                  argv_line, r.output, lf)
                # the script text changed (comment): compare with a fresh
                # configure of the same text under the ORIGINAL ambient
                fresh, ref, _ = sim.fresh_reference()
                diff = sim.diff_files(sim.primary(), ref)
                if fresh.ok and diff:
                    vio('regen-equals-configure',
                        'after a backend-launched regeneration under a '
                        'perturbed ambient {} differ from the configure-time '
                        'result'.format(diff), lf)
                conf_files = sim.primary()
            elif kind in ('env', 'env-u'):
                args = ['env'] + (['-u'] if kind == 'env-u' else []) + \
                    [bdir]
                r = sim.bfg(args, env=amb, cwd=cwd, prog=prog)
                trace.append([kind, r.status])
                got = parse_env_output(r.output)
                cur = current_model(w)
                want = {k: v for k, v in cur.items()
                        if '\n' not in v and
                        (kind == 'env' or amb.get(k) != v)}
                if not r.ok or got != want:
                    bad = sorted(k for k in set(got) | set(want)
                                 if got.get(k) != want.get(k))
                    vio('env-prints-model', '`bfg9000 {}` differs from the '
                        'saved variables on {} (status {})'.format(
                            ' '.join(args[:-1]), bad[:6], r.status), lf)
            elif kind in ('run', 'run-I'):
                args = ['run'] + (['-I'] if kind == 'run-I' else []) + \
                    ['-B', bdir, '--', '/usr/bin/env', '-0']
                r = sim.bfg(args, env=amb, cwd=cwd, prog=prog)
                trace.append([kind, r.status])
                got = parse_env0(r.output)
                want = env if kind == 'run-I' else current_model(w)
                if not r.ok or got != want:
                    bad = sorted(k for k in set(got) | set(want)
                                 if got.get(k) != want.get(k))
                    vio('run-sees-model', '`bfg9000 {}` runs the command '
                        'with variables differing on {} (status {})'.format(
                            kind, bad[:6], r.status), lf)
            elif kind == 'reload':
                # O3b: load + save is the identity on the snapshot
                from bfg9000.environment import Environment
                e = Environment.load(w.build)
                tmp = os.path.join(w.root, 'resave')
                os.makedirs(tmp, exist_ok=True)
                e.save(tmp)
                with open(os.path.join(tmp, '.bfg_environ')) as f:
                    again = canon_snapshot(json.load(f))
                with open(w.b('.bfg_environ')) as f:
                    now = canon_snapshot(json.load(f))
                trace.append(['reload', again == now])
                if again != now:
                    bad = [k for k in now['data']
                           if now['data'][k] != again['data'].get(k)]
                    vio('save-load-identity', 'Environment.load(...).save() '
                        'changes the snapshot in {}'.format(bad), lf)
            elif kind == 'downgrade':
                with open(w.b('.bfg_environ')) as f:
                    now = json.load(f)
                v = lt['version']
                old = downgrade(now, v)
                trace.append(['downgrade', v, old is not None])
                if old is None:
                    stats['downgrade.inexpressible'] = \
                        stats.get('downgrade.inexpressible', 0) + 1
                    continue
                stats['downgrade.v{}'.format(v)] = \
                    stats.get('downgrade.v{}'.format(v), 0) + 1
                with open(w.b('.bfg_environ'), 'w') as f:
                    json.dump(old, f)
                args = ['regenerate', w.build]
                r = sim.bfg(args, env=amb, cwd=cwd, prog=prog)
                if not r.ok:
                    vio('older-format', 'regenerate from a v{} snapshot '
                        'fails:\n{}'.format(v, r.output[-600:]),
                        lf | {'v{}'.format(v)})
                    break
                check_after_regen(sim, w, vio, conf_files, conf_snapshot,
                                  argv_line, r.output,
                                  lf | {'v{}'.format(v)})
    finally:
        try:
            os.remove(link)
        except OSError:
            pass
        if not os.environ.get('BFGSIM_KEEP'):
            w.destroy()
    return {'proj': proj, 'cfg': cfg, 'violations': violations,
            'trace': trace, 'stats': stats, 'used': sorted(used),
            'backend': backend, 'conf_args': proj.conf_args,
            'toolchain': proj.files.get('toolchain.bfg'),
            'scenario': scn, 'root': root}


def canon_snapshot(x):
    """Path objects are stored as [suffix, root, destdir]; a trailing slash
    only records that the path is known to be a directory and does not take
    part in Path equality."""
    if isinstance(x, list):
        if len(x) == 3 and isinstance(x[0], str) and isinstance(x[1], str) \
           and isinstance(x[2], bool):
            s = x[0].rstrip('/') or ('/' if x[0].startswith('/') else '.')
            if s == './':
                s = '.'
            return [s, x[1], x[2]]
        return [canon_snapshot(i) for i in x]
    if isinstance(x, dict):
        return {k: canon_snapshot(v) for k, v in x.items()}
    return x


def current_model(w):
    with open(w.b('.bfg_environ')) as f:
        return json.load(f)['data']['variables']['current']


def check_after_regen(sim, w, vio, conf_files, conf_snapshot, argv_line,
                      output, lf):
    if conf_files is not None:
        diff = sim.diff_files(sim.primary(), conf_files)
        if diff:
            import difflib
            d0 = diff[0]
            ud = list(difflib.unified_diff(
                (conf_files.get(d0) or '').splitlines(),
                (sim.primary().get(d0) or '').splitlines(),
                'configure/' + d0, 'regenerated/' + d0, lineterm='', n=0))
            vio('regen-equals-configure',
                'after a later regeneration under a perturbed ambient {} '
                'differ from the configure-time result:\n{}'.format(
                    diff, '\n'.join(l[:200] for l in ud[:8])),
                lf | {'differs:' + os.path.basename(d) for d in diff})
            return
    with open(w.b('.bfg_environ')) as f:
        now = canon_snapshot(json.load(f))
    conf_snapshot = canon_snapshot(conf_snapshot)
    if now != conf_snapshot:
        bad = sorted(k for k in set(now['data']) | set(conf_snapshot['data'])
                     if now['data'].get(k) != conf_snapshot['data'].get(k))
        detail = ''
        if 'variables' in bad:
            a = now['data']['variables']['current']
            b = conf_snapshot['data']['variables']['current']
            ks = sorted(k for k in set(a) | set(b) if a.get(k) != b.get(k))
            detail = ' variables differing: {}'.format(
                {k: (b.get(k), a.get(k)) for k in ks[:4]})
        vio('snapshot-stable', 'the saved configuration changed in {} after '
            'a later regeneration under a perturbed ambient.{}'.format(
                bad, detail), lf | {'snapshot:' + b for b in bad})
        return
    now_argv = [l for l in output.split('\n') if 'ARGV ' in l]
    if now_argv and argv_line and now_argv[-1].split('ARGV ', 1)[1] != \
       argv_line[-1].split('ARGV ', 1)[1]:
        vio('project-arguments', 'project arguments seen by the script '
            'changed: {} -> {}'.format(argv_line[-1], now_argv[-1]), lf)


PARAMS = {
    'quick': {'budget': 70, 'later': 4},
    'thorough': {'budget': 900, 'later': 8},
}

EVIDENCE = {
    'level': 'exploration',
    'rule': ('one case = one generated configure-time configuration (ambient '
             'variables with arbitrary printable values, a toolchain script '
             'of random variable-store operations and toolchain builtins, '
             'install dirs, library mode, compdb switch, project arguments) '
             'followed by a history of later invocations (regenerate, '
             'backend-launched lazy regeneration, env, env -u, run, run -I, '
             'load+save, format downgrade to v10..v16 + regenerate), each '
             'under a freshly perturbed ambient environment, cwd, HOME and '
             'argv[0] spelling; distinct = distinct (toolchain operation '
             'kinds used, configure arguments, sequence of later invocation '
             'kinds); non-trivial = at least one later invocation ran under '
             'an ambient that differs from the configure-time one'),
    'real': ['bfg9000 from /repo working tree', 'GNU make 4.3',
             '/usr/bin/env'],
    'stubs': ['cc/mycc/ar stubs (two directories holding `mycc`)',
              'clock (logical mtimes)'],
    'assumptions': [
        'values are free of NUL and line breaks',
        'mopack not exercised (the only in-tree consumer of '
        'variables.changes); the changes clause is checked in-process on the '
        'real EnvVarDict',
    ],
}


def summarise(case):
    kinds = [t[0] for t in case['trace']]
    shape = '|'.join([case['backend'], ','.join(case['used']),
                      ' '.join(case['conf_args']), ','.join(kinds)])
    rep = None
    if case['violations']:
        text = json.dumps(case['scenario']).replace(case['root'], '$W')
        rep = {'property': PROP, 'seed': case['seed'], 'ops': [],
               'scenario': json.loads(text)}
    stats = dict(case['stats'])
    for u in case['used']:
        stats['tc.' + u] = 1
    return {
        'seed': case['seed'],
        'violations': [v.to_json() for v in case['violations']],
        'stats': stats,
        'nontrivial': len(case['trace']) > 1,
        'shape': hashlib.sha256(shape.encode()).hexdigest()[:16],
        'digest': hashlib.sha256(repr(case['trace']).encode())
        .hexdigest()[:16],
        'sample': {'seed': case['seed'], 'conf_args': case['conf_args'],
                   'toolchain': (case['toolchain'] or '').split('\n'),
                   'later': case['trace']},
        'replay': rep,
        'wall': case.get('wall'),
    }


def replay(rep, root):
    scn = json.loads(json.dumps(rep['scenario']).replace('$W', root))
    case = execute(scn, root)
    return [v.to_json() for v in case['violations']]


def minimise(rep, v, root, deadline):
    """Shrink the later-invocation list and the toolchain script."""
    import time
    from .minimise import ddmin, same_class
    best = {'rep': rep, 'v': v}

    def attempt(scn):
        if time.monotonic() > deadline:
            return False
        cand = dict(best['rep'])
        cand['scenario'] = scn
        try:
            vios = replay(cand, root)
        except Exception:
            return False
        hit = same_class(vios, v)
        if hit is not None:
            best['rep'], best['v'] = cand, hit
            return True
        return False

    def with_later(items):
        s = copy.deepcopy(best['rep']['scenario'])
        s['later'] = items
        return s
    ddmin(best['rep']['scenario']['later'],
          lambda items: attempt(with_later(items)), deadline)
    return best['rep'], best['v']
