"""C07 - real-toolchain builds are incremental and survive header changes.

Generated C projects are configured by bfg9000 and built by real GNU make
with the real gcc/ar/ld behind logging wrappers.  Every header contributes a
constant to the value the program prints, so the program output is a function
of the include closure of every translation unit and of each header's current
constant: a stale object prints an old value.  Histories edit headers and
sources (modify / add / delete / rename, names with spaces and Make-special
characters calibrated against gcc+make without bfg9000), interleaved with
builds, null builds and clean+build."""

import hashlib
import os
import random
import shutil
import subprocess
import tempfile

from . import bfgrun as R
from . import gen as G
from . import sim as S
from . import world as W
from .sim import Violation
from .world import HarnessError

PROP = 'C07'

CANDIDATE_CHARS = [' ', '#', '$', '%', '+', ',', '@', '~', '(', ')', '=',
                   '&', ';', "'", '!', '[', '{']


def calibrate():
    """Which special characters do gcc -MMD and GNU make round-trip in a
    header name *without bfg9000*?  Only those are used in worlds."""
    ok = []
    base = tempfile.mkdtemp(prefix='bfgsim-cal-', dir=W.scratch_root()
                            if os.path.isdir(W.scratch_root()) else None)
    try:
        for ch in CANDIDATE_CHARS:
            d = os.path.join(base, 'c{}'.format(ord(ch)))
            os.makedirs(d)
            h = 'a{}b.h'.format(ch)
            with open(os.path.join(d, h), 'w') as f:
                f.write('#define V 1\n')
            with open(os.path.join(d, 'main.c'), 'w') as f:
                f.write('#include "{}"\nint main(void) {{ return V; }}\n'
                        .format(h))
            with open(os.path.join(d, 'Makefile'), 'w') as f:
                f.write('main.o: main.c\n\tgcc -MMD -MP -MF main.d -c main.c '
                        '-o main.o\n-include main.d\n')
            env = {'PATH': '/usr/bin:/bin', 'LANG': 'C'}
            r1 = subprocess.run(['make', '-C', d], env=env,
                                capture_output=True, text=True)
            if r1.returncode != 0:
                continue
            t = os.stat(os.path.join(d, 'main.o')).st_mtime + 10
            os.utime(os.path.join(d, h), (t, t))
            r2 = subprocess.run(['make', '-C', d], env=env,
                                capture_output=True, text=True)
            if not (r2.returncode == 0 and 'gcc' in r2.stdout):
                continue
            # deleting a header that is no longer included: gcc's own -MP
            # phony targets must keep make going
            with open(os.path.join(d, 'main.c'), 'w') as f:
                f.write('int main(void) { return 0; }\n')
            t += 10
            os.utime(os.path.join(d, 'main.c'), (t, t))
            os.remove(os.path.join(d, h))
            r3 = subprocess.run(['make', '-C', d], env=env,
                                capture_output=True, text=True)
            if r3.returncode == 0 and 'gcc' in r3.stdout:
                ok.append(ch)
    finally:
        shutil.rmtree(base, ignore_errors=True)
    return ok


class Model:
    """Include DAG + constants; the reference for what the program prints."""

    def __init__(self):
        self.headers = {}     # name -> {'k': int, 'inc': [names], 'id': n}
        self.sources = {}     # rel path -> {'k': int, 'inc': [names], 'id'}
        self.next_id = 0
        self.pch = None       # header name force-included into pch_users
        self.pch_users = set()
        self.gen_k = None     # constant behind a generated header + source

    def new_id(self):
        self.next_id += 1
        return self.next_id

    def hval(self, h, stack=()):
        x = self.headers[h]
        return x['k'] + sum(self.hval(i) for i in x['inc'])

    def incs_of(self, s):
        x = self.sources[s]
        extra = [self.pch] if (self.pch in self.headers and
                               s in self.pch_users) else []
        return list(x['inc']) + extra

    def sval(self, s):
        x = self.sources[s]
        return x['k'] + sum(self.hval(i) for i in self.incs_of(s))

    def expected(self):
        extra = self.gen_k or 0
        return (sum(self.sval(s) for s in self.sources) + extra) % 1000003

    def closure(self, incs):
        out, stack = set(), list(incs)
        while stack:
            h = stack.pop()
            if h in out or h not in self.headers:
                continue
            out.add(h)
            stack.extend(self.headers[h]['inc'])
        return out

    def users_of_header(self, h):
        return {s for s, x in self.sources.items()
                if h in self.closure(self.incs_of(s))}

    def header_text(self, h):
        x = self.headers[h]
        g = 'GUARD_{}'.format(x['id'])
        lines = ['#ifndef ' + g, '#define ' + g]
        lines += ['#include "{}"'.format(i) for i in x['inc']]
        expr = ' + '.join([str(x['k'])] +
                          ['VAL_{}'.format(self.headers[i]['id'])
                           for i in x['inc']])
        lines += ['#define VAL_{} ({})'.format(x['id'], expr), '#endif', '']
        return '\n'.join(lines)

    def source_text(self, s):
        x = self.sources[s]
        lines = ['#include "{}"'.format(i) for i in x['inc']]
        # the precompiled header is force-included by the compiler
        expr = ' + '.join([str(x['k'])] +
                          ['VAL_{}'.format(self.headers[i]['id'])
                           for i in self.incs_of(s)])
        lines += ['long val_{}(void) {{ return {}; }}'.format(x['id'], expr),
                  '']
        return '\n'.join(lines)

    def main_text(self):
        ids = [x['id'] for x in self.sources.values()]
        lines = ['#include <stdio.h>']
        lines += ['long val_{}(void);'.format(i) for i in ids]
        if self.gen_k is not None:
            lines += ['long val_generated(void);']
        lines += ['int main(void) {', '  long t = 0;']
        lines += ['  t += val_{}();'.format(i) for i in ids]
        if self.gen_k is not None:
            lines += ['  t += val_generated();']
        lines += ['  printf("%ld\\n", t % 1000003);', '  return 0;', '}', '']
        return '\n'.join(lines)


def header_name(rng, chars, used):
    while True:
        base = rng.choice(G.NAMES)
        if chars and rng.random() < 0.5:
            ch = ' ' if (' ' in chars and rng.random() < 0.45) \
                else rng.choice(chars)
            base = base[:3] + ch + base[3:]
        if rng.random() < 0.2:
            base += '-{}'.format(rng.randrange(9))
        n = base + '.h'
        if n not in used:
            used.add(n)
            return n


class C07Case:
    def __init__(self, root, cfg, chars):
        self.w = W.World(root)
        R.install_stubs(self.w, config=cfg, real_tools=('cc', 'c++', 'ar'))
        self.cfg = cfg
        self.chars = chars
        self.m = Model()
        self.violations = []
        self.trace = []
        self.stats = {}
        self.used_names = set()
        self.full_objects = None

    def count(self, k, n=1):
        self.stats[k] = self.stats.get(k, 0) + n

    def vio(self, oracle, detail, feats=()):
        self.violations.append(Violation(
            PROP, oracle, detail, {'backend=' + self.proj.backend} |
            set(feats), len(self.trace)))

    def write_model_file(self, rel):
        m = self.m
        if rel in m.sources:
            self.w.write(rel, m.source_text(rel))
        elif rel == 'main.c':
            self.w.write(rel, m.main_text())
        else:
            self.w.write(os.path.join('include', rel), m.header_text(rel))


def setup(c, scn):
    """Materialise the initial project described by scn['model']."""
    m = c.m
    for h, x in scn['headers'].items():
        m.headers[h] = {'k': x['k'], 'inc': list(x['inc']),
                        'id': m.new_id()}
    for s, x in scn['sources'].items():
        m.sources[s] = {'k': x['k'], 'inc': list(x['inc']),
                        'id': m.new_id()}
    if scn.get('pch'):
        m.pch = scn['pch']
        m.pch_users = {s_ for s_ in scn['sources']
                       if s_ not in scn['lib_sources']}
    if scn.get('gen_k') is not None:
        m.gen_k = scn['gen_k']
        c.w.write('tmpl/genhdr.h.in', '#define VAL_GENERATED {}\n'.format(
            m.gen_k))
        c.w.write('tmpl/gensrc.c.in', '#include "genhdr.h"\nlong '
                  'val_generated(void) { return VAL_GENERATED; }\n')
    for h in m.headers:
        c.write_model_file(h)
    for s in m.sources:
        c.write_model_file(s)
    c.write_model_file('main.c')
    proj = G.Project()
    proj.backend = scn.get('backend', 'make')
    lines = []
    lib_srcs = scn['lib_sources']
    if scn['use_find']:
        lines.append(G.Stmt('find', G.call('find_files', 'src/*.c'),
                            'found'))
        exe_files = "['main.c'] + found"
    else:
        exe_files = repr(['main.c'] + [s for s in scn['sources']
                                       if s not in lib_srcs])
    libs = ''
    if lib_srcs:
        lines.append(G.Stmt(scn['lib_kind'], G.call(
            scn['lib_kind'], 'part', files=lib_srcs, includes=['include']),
            'part'))
        libs = ', libs=[part]'
    gen_inc = ''
    if scn.get('gen_k') is not None:
        # a multi-output custom step producing a header and a source
        lines.append(G.Stmt('build_step', (
            "build_step(['gen/genhdr.h', 'gen/gensrc.c'], cmd=['sh', '-c', "
            "'cp \"$0\" \"$2\" && cp \"$1\" \"$3\"', build_step.input, "
            "build_step.output], files=['tmpl/genhdr.h.in', "
            "'tmpl/gensrc.c.in'])"), 'gen'))
        exe_files += ' + [gen[1]]'
        gen_inc = ', gen[0]'
    pch = ''
    if scn.get('pch'):
        lines.append(G.Stmt('precompiled_header', G.call(
            'precompiled_header', file='include/' + scn['pch'],
            includes=['include']), 'pchobj'))
        pch = ', pch=pchobj'
    lines.append(G.Stmt('executable', "executable('prog', files={}, "
                        "includes=['include'{}]{}{})".format(
                            exe_files, gen_inc, libs, pch), 'prog'))
    proj.scripts['build.bfg'] = lines
    c.w.write('build.bfg', proj.script_text('build.bfg'))
    c.proj = proj
    c.sim = S.Sim(c.w, proj, c.cfg)


def objects_compiled(r):
    return sorted(w for s in r.steps if '-c' in s['argv'] and s['rc'] == 0
                  for w in s['writes'] if w.endswith('.o'))


def sources_compiled(r, w):
    out = set()
    for s in r.steps:
        if '-c' in s['argv']:
            src = s['argv'][s['argv'].index('-c') + 1]
            out.add(os.path.relpath(src, w.src) if os.path.isabs(src)
                    else src)
    return out


def run_program(c):
    p = c.w.b('prog')
    try:
        r = subprocess.run([p], capture_output=True, text=True, timeout=20,
                           env={'PATH': '/usr/bin:/bin'})
    except (OSError, subprocess.TimeoutExpired) as e:
        return None, repr(e)
    return r.returncode, r.stdout.strip()


def do_build(c, expect_sources=None, label='build', must_work=True):
    r = c.sim.backend_run([])
    compiled = sources_compiled(r, c.w)
    c.trace.append([label, r.status, sorted(compiled),
                    len([s for s in r.steps if s['tool'] == 'real-cc' and
                         '-c' not in s['argv']])])
    c.count('builds')
    c.count('compiles', len(compiled))
    if not r.ok:
        if must_work:
            c.vio('build-proceeds', 'the build of a consistent project '
                  'fails:\n' + r.output[-1500:], {'op=' + label})
        return r, compiled
    rc, out = run_program(c)
    want = str(c.m.expected())
    if rc != 0 or out != want:
        c.vio('program-output', 'after {} the program prints {!r} (status '
              '{}), the model says {} - some object is stale'.format(
                  label, out, rc, want), {'op=' + label})
        return r, compiled
    if expect_sources is not None:
        missing = set(expect_sources) - compiled
        if missing:
            c.vio('recompiles-includers', 'sources {} include the edited '
                  'file (transitively) but were not recompiled'.format(
                      sorted(missing)), {'op=' + label})
    return r, compiled


def null_build(c):
    r = c.sim.backend_run([])
    c.trace.append(['null', r.status, len(r.steps)])
    if not r.ok or r.steps or r.inv:
        c.vio('null-build', 'a build right after a build ran {} tool '
              'invocations and {} bfg9000 launches (status {}): {}'.format(
                  len(r.steps), len(r.inv), r.status,
                  [s['argv'][-1] for s in r.steps][:5]))
    else:
        c.count('null_builds')


def execute(root, cfg, scn, ops, chars):
    c = C07Case(root, cfg, chars)
    m = c.m
    try:
        setup(c, scn)
        r = c.sim.configure()
        if not r.ok:
            raise HarnessError('configure failed:\n' + r.output[-2000:])
        r0, comp0 = do_build(c, label='first-build')
        if c.violations:
            return c
        c.full_objects = set(objects_compiled(r0))
        full_links = len([s for s in r0.steps if '-c' not in s['argv']])
        for op in ops:
            if c.violations:
                break
            k = op[0]
            if k == 'modify-header':
                h = op[1]
                if h not in m.headers:
                    continue
                users = m.users_of_header(h)
                m.headers[h]['k'] = op[2]
                c.write_model_file(h)
                c.trace.append(['modify-header', h])
                do_build(c, users, 'modify-header')
            elif k == 'modify-source':
                s = op[1]
                if s not in m.sources:
                    continue
                m.sources[s]['k'] = op[2]
                c.write_model_file(s)
                c.trace.append(['modify-source', s])
                do_build(c, {s}, 'modify-source')
            elif k == 'modify-template':
                if m.gen_k is None:
                    continue
                m.gen_k = op[1]
                c.w.write('tmpl/genhdr.h.in', '#define VAL_GENERATED {}\n'
                          .format(m.gen_k))
                c.trace.append(['modify-template'])
                do_build(c, None, 'modify-template')
            elif k == 'add-header':
                h, into = op[1], op[2]
                if h in m.headers or (into not in m.headers and
                                      into not in m.sources):
                    continue
                m.headers[h] = {'k': op[3], 'inc': [], 'id': m.new_id()}
                c.write_model_file(h)
                tgt = m.headers.get(into) or m.sources.get(into)
                users = ({into} if into in m.sources
                         else m.users_of_header(into))
                tgt['inc'].append(h)
                c.write_model_file(into)
                c.trace.append(['add-header', h, into])
                do_build(c, users, 'add-header')
            elif k == 'drop-include-delete':
                h = op[1]
                if h not in m.headers or h == m.pch:
                    continue
                users = m.users_of_header(h)
                for x in list(m.headers.values()) + list(m.sources.values()):
                    if h in x['inc']:
                        x['inc'].remove(h)
                for n, x in list(m.headers.items()):
                    if n != h:
                        c.write_model_file(n)
                for n in m.sources:
                    c.write_model_file(n)
                del m.headers[h]
                if op[2] == 'delete':
                    c.w.remove(os.path.join('include', h))
                else:
                    c.w.rename(os.path.join('include', h),
                               os.path.join('include', 'unused-' + h))
                c.trace.append(['drop-include-' + op[2], h])
                do_build(c, users, 'drop-include-' + op[2])
            elif k == 'rename-header':
                h, new = op[1], op[2]
                if h not in m.headers or new in m.headers or h == m.pch:
                    continue
                users = m.users_of_header(h)
                m.headers[new] = m.headers.pop(h)
                for x in list(m.headers.values()) + list(m.sources.values()):
                    x['inc'] = [new if i == h else i for i in x['inc']]
                c.w.remove(os.path.join('include', h))
                for n in m.headers:
                    c.write_model_file(n)
                for n in m.sources:
                    c.write_model_file(n)
                c.trace.append(['rename-header', h, new])
                do_build(c, users, 'rename-header')
            elif k == 'add-source':
                s = op[1]
                if not scn['use_find'] or s in m.sources:
                    continue
                incs = [i for i in op[3] if i in m.headers]
                m.sources[s] = {'k': op[2], 'inc': incs, 'id': m.new_id()}
                if m.pch:
                    m.pch_users.add(s)
                c.write_model_file(s)
                c.write_model_file('main.c')
                c.trace.append(['add-source', s])
                do_build(c, {s, 'main.c'}, 'add-source')
                if not c.violations:
                    c.full_objects = None
            elif k == 'null':
                null_build(c)
            elif k == 'clean-build':
                rc = c.sim.backend_run(['clean'])
                c.trace.append(['clean', rc.status])
                if not rc.ok:
                    c.vio('build-proceeds', 'clean fails:\n' +
                          rc.output[-600:])
                    break
                r2, comp = do_build(c, label='build-after-clean')
                if c.violations:
                    break
                want = set(m.sources) | {'main.c'}
                if m.pch:
                    want.add(os.path.join('include', m.pch))
                comp = {x for x in comp if not x.endswith('gensrc.c')}
                links = len([s for s in r2.steps if '-c' not in s['argv']])
                if comp != want or links < full_links:
                    c.vio('clean-recreates', 'after clean the build '
                          'compiled {} of {} sources and ran {} of {} '
                          'archive/link steps: a product survived clean'
                          .format(len(comp), len(want), links, full_links))
                else:
                    c.count('clean_builds')
            else:
                raise HarnessError('unknown op {}'.format(op))
    finally:
        if not os.environ.get('BFGSIM_KEEP'):
            c.w.destroy()
    return c


def gen_scenario(rng, chars):
    used = set()
    headers, order = {}, []
    for i in range(rng.randint(3, 8)):
        h = header_name(rng, chars, used)
        inc = rng.sample(order, rng.randint(0, min(2, len(order))))
        headers[h] = {'k': rng.randrange(1, 1000), 'inc': inc}
        order.append(h)
    sources = {}
    # now and then a project with some fifty translation units (whatever
    # handles long lists in batches has to get the batches right)
    n_src = rng.randint(2, 5) if rng.random() > 0.05 else rng.randint(48, 64)
    for i in range(n_src):
        stem = rng.choice(G.NAMES)
        if ' ' in chars and rng.random() < 0.15:
            stem = stem[:3] + ' ' + stem[3:]     # bfg9000 supports blanks
        s = 'src/{}{}.c'.format(stem, i)
        sources[s] = {'k': rng.randrange(1, 1000),
                      'inc': rng.sample(order, rng.randint(0, min(3,
                                                                  len(order))))}
    use_find = rng.random() < 0.5
    lib_sources = []
    if not use_find and len(sources) > 1 and rng.random() < 0.6:
        lib_sources = rng.sample(sorted(sources), rng.randint(1,
                                                              len(sources) - 1))
    pch = None
    if rng.random() < 0.25:
        # named in the build script, so a plain name (special characters in
        # script-level file names are C01/C04, not this property)
        plain = [h for h in order
                 if all(ch.isalnum() or ch in '._-' for ch in h)]
        if plain:
            pch = rng.choice(plain)
    return {'headers': headers, 'sources': sources, 'use_find': use_find,
            'pch': pch,
            'gen_k': rng.randrange(1, 1000) if rng.random() < 0.3 else None,
            'lib_sources': lib_sources,
            'lib_kind': rng.choice(['static_library', 'shared_library',
                                    'library']),
            'backend': rng.choice(['make', 'ninja'])}


def run_case(seed, root, params=None):
    params = params or {}
    rng = random.Random(seed)
    chars = params.get('chars', [' '])
    cfg = {'clock_mode': 'strict', 'bufsize': 4096, 'seed': seed,
           'jobs': rng.choice([1, 2, 4])}
    scn = gen_scenario(rng, chars)
    hs = list(scn['headers'])
    ss = list(scn['sources'])
    used = set(hs)
    ops = []
    for i in range(rng.randint(3, params.get('max_ops', 8))):
        k = rng.choice(['modify-header'] * 4 + ['modify-source'] * 2 +
                       ['add-header'] * 2 + ['drop-include-delete'] * 2 +
                       ['rename-header'] * 2 + ['add-source', 'null', 'null',
                                                'clean-build'] +
                       (['modify-template'] * 3 + ['clean-build']
                        if scn.get('gen_k') is not None else []))
        if k == 'modify-header' and hs:
            ops.append([k, rng.choice(hs), rng.randrange(1, 1000)])
        elif k == 'modify-source':
            ops.append([k, rng.choice(ss), rng.randrange(1, 1000)])
        elif k == 'add-header':
            h = header_name(rng, chars, used)
            ops.append([k, h, rng.choice(hs + ss), rng.randrange(1, 1000)])
            hs.append(h)
        elif k == 'drop-include-delete' and len(hs) > 1:
            h = rng.choice(hs)
            hs.remove(h)
            ops.append([k, h, rng.choice(['delete', 'rename'])])
        elif k == 'rename-header' and hs:
            h = rng.choice(hs)
            new = header_name(rng, chars, used)
            hs[hs.index(h)] = new
            ops.append([k, h, new])
        elif k == 'add-source':
            s = 'src/added{}.c'.format(i)
            ops.append([k, s, rng.randrange(1, 1000),
                        rng.sample(hs, min(len(hs), rng.randint(0, 2)))])
            ss.append(s)
        elif k == 'modify-template':
            ops.append([k, rng.randrange(1, 1000)])
        elif k in ('null', 'clean-build'):
            ops.append([k])
        if rng.random() < 0.3:
            ops.append(['null'])
    c = execute(root, cfg, scn, ops, chars)
    return {'cfg': cfg, 'scn': scn, 'ops': ops, 'violations': c.violations,
            'trace': c.trace, 'stats': c.stats, 'chars': chars}


PARAMS = {
    'quick': {'budget': 75, 'max_ops': 6},
    'thorough': {'budget': 900, 'max_ops': 12},
}

EVIDENCE = {
    'level': 'exploration',
    'rule': ('one case = one generated C project (2-5 translation units, '
             '5% of the cases 48-64, '
             '3-8 headers in a random include DAG, optional static/shared '
             'library, sources listed or discovered by find_files) built '
             'with the real gcc/ar/ld, + a history of 3-12 edits (modify '
             'header/source, add header + include, drop include then '
             'delete/rename the header, rename header and fix includers, '
             'add source) each followed by a build and a run of the '
             'program, with null builds and clean+build interleaved; '
             'distinct = distinct (project shape, special characters used, '
             'sequence of operation kinds); non-trivial = at least one edit '
             'forced a recompilation that was checked through the program '
             'output'),
    'real': ['bfg9000 from /repo working tree', 'GNU make 4.3', 'gcc 12 / '
             'ar / ld (behind logging wrappers that restamp outputs with '
             'logical ticks)', 'bfg9000-depfixer', 'the built program'],
    'stubs': ['clock (logical mtimes)', 'touch (tick-stamping)'],
    'assumptions': [
        'header names use [A-Za-z0-9_.-] plus the special characters that '
        'gcc -MMD and GNU make round-trip on their own (calibrated at start '
        'of every run without bfg9000; listed under coverage.chars)',
        'edits never tie in mtime with build outputs',
        'minimality of rebuilds is not gated (only: at least the includers '
        'are recompiled, and a null build does nothing)',
    ],
}


def selftest(check):
    chars = calibrate()
    check.params['chars'] = chars
    check.out('calibration: gcc+make round-trip header names containing: '
              '{}'.format(' '.join(repr(c) for c in chars)))


def evidence_extra(cases):
    chars = set()
    for c in cases:
        chars |= set(c.get('chars_used', []))
    return {'chars': sorted(chars)}


def summarise(case):
    scn = case['scn']
    kinds = [o[0] for o in case['ops']]
    names = list(scn['headers']) + [o[1] for o in case['ops']
                                    if o[0] == 'add-header'] + \
        [o[2] for o in case['ops'] if o[0] == 'rename-header']
    used = sorted({ch for n in names for ch in n
                   if not (ch.isalnum() or ch in '._-')})
    shape = '|'.join([str(len(scn['headers'])), str(len(scn['sources'])),
                      str(scn['use_find']), scn['lib_kind']
                      if scn['lib_sources'] else '-', ''.join(used),
                      ','.join(kinds)])
    rep = None
    if case['violations']:
        rep = {'property': PROP, 'seed': case['seed'], 'cfg': case['cfg'],
               'scenario': scn, 'ops': case['ops'], 'chars': case['chars']}
    st = case['stats']
    return {
        'seed': case['seed'],
        'violations': [v.to_json() for v in case['violations']],
        'stats': st,
        'nontrivial': st.get('compiles', 0) >
        len(scn['sources']) + 1,
        'shape': hashlib.sha256(shape.encode()).hexdigest()[:16],
        'digest': hashlib.sha256(repr(case['trace']).encode())
        .hexdigest()[:16],
        'chars_used': used,
        'sample': {'seed': case['seed'], 'headers': scn['headers'],
                   'sources': scn['sources'], 'use_find': scn['use_find'],
                   'library': scn['lib_sources'] and scn['lib_kind'],
                   'ops': case['ops']},
        'replay': rep,
        'wall': case.get('wall'),
    }


def replay(rep, root):
    c = execute(root, rep['cfg'], rep['scenario'], rep['ops'],
                rep.get('chars', []))
    return [v.to_json() for v in c.violations]


def minimise(rep, v, root, deadline):
    import time
    from .minimise import ddmin, same_class
    best = {'rep': rep, 'v': v}

    def attempt(ops):
        if time.monotonic() > deadline:
            return False
        cand = dict(best['rep'], ops=ops)
        try:
            vios = replay(cand, root)
        except Exception:
            return False
        hit = same_class(vios, v)
        if hit is not None:
            best['rep'], best['v'] = cand, hit
            return True
        return False
    ddmin(best['rep']['ops'], attempt, deadline)
    return best['rep'], best['v']
