"""C20 (GUID clause) - generated MSBuild solutions are well-formed and their
project GUIDs are stable across regenerations.

The MSBuild backend runs on Linux behind MSVC-flavoured stub tools.  A history
is configure followed by script edits (add / keep / remove / re-add / rename /
reorder steps, change default) each followed by `regenerate`; uuid4 is a
seeded stream and `.bfg_uuid` is the persistent state.  The Windows quoting
clause of C20 is a pure string function and is NOT decided here."""

import hashlib
import os
import random
import re

from . import bfgrun as R
from . import gen as G
from . import sim as S
from . import world as W
from .sim import Violation
from .world import HarnessError

PROP = 'C20'

PROJ_RE = re.compile(r'^Project\("(\{[^}]+\})"\) = "([^"]*)", "([^"]*)", '
                     r'"(\{[^}]+\})"\s*$')
DEP_RE = re.compile(r'^\s*(\{[0-9A-Fa-f-]+\}) = (\{[0-9A-Fa-f-]+\})\s*$')
CFG_RE = re.compile(r'^\s*(\{[0-9A-Fa-f-]+\})\.[^=]*=')
GUID_FILE_RE = re.compile(r'<ProjectGuid>(\{[^}]+\})</ProjectGuid>')


def parse_sln(text):
    projects, cfg_guids = [], []
    cur, in_deps, in_cfg = None, False, False
    depth = 0
    for line in text.split('\n'):
        m = PROJ_RE.match(line)
        if m:
            cur = {'sln': m.group(1), 'name': m.group(2), 'path': m.group(3),
                   'guid': m.group(4).upper(), 'deps': []}
            projects.append(cur)
            depth += 1
            continue
        s = line.strip()
        if s == 'EndProject':
            cur = None
            depth -= 1
        elif s.startswith('ProjectSection(ProjectDependencies)'):
            in_deps = True
        elif s == 'EndProjectSection':
            in_deps = False
        elif s.startswith('GlobalSection(ProjectConfigurationPlatforms)'):
            in_cfg = True
        elif s == 'EndGlobalSection':
            in_cfg = False
        elif in_deps and cur is not None:
            m = DEP_RE.match(line)
            if m:
                cur['deps'].append(m.group(1).upper())
        elif in_cfg:
            m = CFG_RE.match(line)
            if m:
                cfg_guids.append(m.group(1).upper())
    return projects, cfg_guids, depth


class Steps:
    """Abstract script: an ordered list of MSBuild-representable steps."""
    KINDS = ['executable', 'executable', 'shared_library', 'static_library',
             'library', 'command', 'alias', 'copy_file']

    def __init__(self, rng):
        self.rng = rng
        self.steps = []        # dicts: id, kind, name, deps (ids)
        self.removed = []
        self.next_id = 0
        self.default = None

    def used_outputs(self):
        """(kind-class, name) pairs; other backends reject equal *output*
        names, so the generator never produces those."""
        out = set()
        for s in self.steps:
            out.add(self.output_key(s['kind'], s['name']))
        return out

    @staticmethod
    def output_key(kind, name):
        # MSVC naming: a shared library produces name.dll plus the import
        # library name.lib, a static library produces name.lib - the same
        # name may therefore be used for one library kind only
        if kind in ('shared_library', 'library', 'static_library'):
            return name + '.lib'
        return name

    def fresh_name(self, kind, in_sub=False):
        rng = self.rng
        for _ in range(50):
            base = rng.choice(G.NAMES[:16])
            if rng.random() < 0.08:
                base = 'lib' + base
            if in_sub:
                # written as `base` inside subdir/build.bfg: the same short
                # name may also be used by the parent script
                base = 'subdir/' + base
            elif rng.random() < 0.2:
                base = rng.choice(['sub', 'nested/dir']) + '/' + base
            if self.output_key(kind, base) not in self.used_outputs() and \
               not any(self.output_key(kind, base).startswith(o + '/') or
                       o.startswith(self.output_key(kind, base) + '/')
                       for o in self.used_outputs()):
                return base
        raise HarnessError('name pool exhausted')

    def add(self):
        rng = self.rng
        kind = rng.choice(self.KINDS)
        libs = [s['id'] for s in self.steps
                if s['kind'] in ('shared_library', 'static_library',
                                 'library') and not s.get('sub')]
        linked = [s['id'] for s in self.steps
                  if s['kind'] not in ('command', 'alias') and
                  not s.get('sub')]
        deps = []
        if kind in ('executable', 'shared_library') and libs:
            deps = rng.sample(libs, rng.randint(0, min(2, len(libs))))
        elif kind in ('command', 'alias') and linked:
            deps = rng.sample(linked, rng.randint(0 if kind == 'command'
                                                  else 1,
                                                  min(2, len(linked))))
        elif kind == 'alias':
            kind = 'executable'
        # (command/alias names are global, not re-rooted: only link steps
        # can repeat a name between a script and its submodule)
        in_sub = kind in ('executable', 'static_library') and \
            not deps and rng.random() < 0.3
        s = {'id': self.next_id, 'kind': kind,
             'name': self.fresh_name(kind, in_sub), 'deps': deps,
             'sub': in_sub}
        self.next_id += 1
        self.steps.append(s)
        return s

    def remove(self):
        if len(self.steps) <= 1:
            return None
        s = self.rng.choice(self.steps)
        self.steps.remove(s)
        for t in self.steps:
            t['deps'] = [d for d in t['deps'] if d != s['id']]
        self.steps = [t for t in self.steps
                      if not (t['kind'] == 'alias' and not t['deps'])]
        if not self.steps:
            self.add()
        if self.default == s['id']:
            self.default = None
        elif isinstance(self.default, list) and s['id'] in self.default:
            self.default = [d for d in self.default if d != s['id']]
        self.removed.append(s)
        return s

    def readd(self):
        if not self.removed:
            return None
        s = self.removed.pop(self.rng.randrange(len(self.removed)))
        ids = {t['id'] for t in self.steps}
        s = dict(s, deps=[d for d in s['deps'] if d in ids])
        key = self.output_key(s['kind'], s['name'])
        if key in self.used_outputs() or (s['kind'] == 'alias' and
                                          not s['deps']):
            return None
        self.steps.append(s)
        return s

    def rename(self):
        if not self.steps:
            return None
        s = self.rng.choice(self.steps)
        s['name'] = self.fresh_name(s['kind'], s.get('sub', False))
        return s

    def reorder(self):
        # move a step as early as its dependencies allow
        if not self.steps:
            return None
        s = self.rng.choice(self.steps)
        self.steps.remove(s)
        pos = 0
        for i, t in enumerate(self.steps):
            if t['id'] in s['deps']:
                pos = i + 1
        users = [i for i, t in enumerate(self.steps) if s['id'] in t['deps']]
        hi = min(users) if users else len(self.steps)
        self.steps.insert(self.rng.randint(pos, max(pos, hi)), s)
        return s

    def render(self, broken_at=None):
        main = self.render_script([s for s in self.steps
                                   if not s.get('sub')], broken_at, True)
        subs = [s for s in self.steps if s.get('sub')]
        if not subs:
            return main
        sub_lines = ['# generated by bfgsim (submodule)']
        for s in subs:
            v = 's{}'.format(s['id'])
            short = s['name'][len('subdir/'):]
            if s['kind'] == 'command':
                sub_lines.append("{} = command({!r}, cmd=['echo', 'x'])"
                                 .format(v, short))
            else:
                sub_lines.append("{} = {}({!r}, files=['../main.c'])".format(
                    v, s['kind'], short))
        main = main.rstrip('\n') + "\nsubexp = submodule('subdir')\n"
        return {'build.bfg': main,
                'subdir/build.bfg': '\n'.join(sub_lines) + '\n'}

    def render_script(self, steps, broken_at, with_default):
        lines = ['# generated by bfgsim', "project('solution', version='1.0')"]
        for n, s in enumerate(steps):
            if broken_at is not None and n == broken_at:
                # not representable in MSBuild: fails inside the writer,
                # after the projects of the earlier steps were created
                lines.append("bad = command('bad', cmd=['echo'], "
                             "extra_deps=[object_file(file='main.c')])")
            v = 's{}'.format(s['id'])
            deps = '[{}]'.format(', '.join('s{}'.format(d)
                                           for d in s['deps']))
            if s['kind'] in ('executable', 'shared_library',
                             'static_library', 'library'):
                extra = ', libs=' + deps if s['deps'] else ''
                lines.append("{} = {}({!r}, files=['main.c']{})".format(
                    v, s['kind'], s['name'], extra))
            elif s['kind'] == 'command':
                extra = ', extra_deps=' + deps if s['deps'] else ''
                lines.append("{} = command({!r}, cmd=['echo', 'x']{})"
                             .format(v, s['name'], extra))
            elif s['kind'] == 'alias':
                lines.append("{} = alias({!r}, {})".format(v, s['name'],
                                                           deps))
            elif s['kind'] == 'copy_file':
                # every copy has its own destination; several may share the
                # same source file
                lines.append("{} = copy_file({!r}, 'main.c')".format(
                    v, s['name'] + '.txt'))
        ids = {s['id'] for s in steps}
        dflt = [d for d in (self.default if isinstance(self.default, list)
                            else [self.default]) if d in ids]
        if dflt:
            lines.append('default({})'.format(
                ', '.join('s{}'.format(d) for d in dflt)))
        return '\n'.join(lines) + '\n'


STEP_RE = re.compile(r"^s\d+ = (\w+)\('([^']*)'")


def expected_names(script):
    """MSBuild project names the documented naming rules give the steps of
    a (generated) script, with multiplicities."""
    out = {}
    for line in script.split('\n'):
        m = STEP_RE.match(line)
        if not m:
            continue
        kind, name = m.group(1), m.group(2)
        if kind in ('shared_library', 'static_library', 'library'):
            name = os.path.join(os.path.dirname(name),
                                'lib' + os.path.basename(name))
        elif kind == 'copy_file':
            name = 'copy_file_tasks/' + name
        out[name] = out.get(name, 0) + 1
    return out


def check_solution(w, prev, vio, feats, script=''):
    """-> {(name, path): guid} of this run, or None when the solution is not
    well-formed (a violation has been recorded)."""
    text = w.read_build('solution.sln')
    if text is None:
        vio('well-formed', 'no solution file was written', feats)
        return None
    projects, cfg_guids, depth = parse_sln(text)
    if depth != 0:
        vio('well-formed', 'unbalanced Project/EndProject', feats)
        return None
    by_guid = {}
    for p in projects:
        by_guid.setdefault(p['guid'], []).append(p)
    dups = {g: ps for g, ps in by_guid.items() if len(ps) > 1}
    if dups:
        g, ps = sorted(dups.items())[0]
        same_name = len({p['name'] for p in ps}) == 1
        # known cause: two script steps whose *distinct* outputs map to one
        # MSBuild project name (lib prefix); anything else is something new
        explained = same_name and \
            expected_names(script).get(ps[0]['name'], 0) >= 2
        vio('guid-unique',
            '{} projects share GUID {}: {}'.format(
                len(ps), g, [(p['name'], p['path']) for p in ps]),
            feats | ({'duplicate-project-name'} if explained
                     else {'guid-collision', 'unexplained-duplicate'}))
        return None
    for p in projects:
        if p['guid'] == p['sln'].upper():
            vio('guid-unique', 'project {} uses the solution GUID'
                .format(p['name']), feats)
            return None
        ft = w.read_build(p['path'])
        m = GUID_FILE_RE.search(ft or '')
        if not m or m.group(1).upper() != p['guid']:
            vio('guid-consistent', 'project file {} carries {} but the '
                'solution says {}'.format(p['path'], m and m.group(1),
                                          p['guid']), feats)
            return None
        for d in p['deps']:
            if d not in by_guid:
                vio('deps-defined', 'project {} depends on {} which is not '
                    'a project of this solution'.format(p['name'], d), feats)
                return None
    for g in cfg_guids:
        if g not in by_guid:
            vio('deps-defined', 'configuration entry for unknown project {}'
                .format(g), feats)
            return None
    cur = {(p['name'], p['path']): p['guid'] for p in projects}
    if prev is not None:
        for key, g in cur.items():
            if key in prev and prev[key] != g:
                vio('guid-stable', 'project {} existed in the previous run '
                    'with GUID {} and now has {}'.format(key, prev[key], g),
                    feats)
                return None
    return cur


def execute(root, cfg, scripts):
    w = W.World(root)
    R.install_stubs(w, msvc=True, config=cfg)
    env = R.base_env(w, {'CC': 'cl', 'CXX': 'cl'})
    violations, trace = [], []
    stats = {}

    def vio(oracle, detail, feats):
        violations.append(Violation(PROP, oracle, detail, feats, len(trace)))

    try:
        w.write('main.c', 'int main(void) { return 0; }\n')
        prev = None
        sln_guid = None
        for i, text in enumerate(scripts):
            may_fail = False
            if isinstance(text, (list, tuple)):
                text, may_fail = text[0], bool(text[1])
            if isinstance(text, dict):
                for rel, t in sorted(text.items()):
                    w.write(rel, t)
                text = '\n'.join(
                    t if rel == 'build.bfg' else
                    re.sub(r"^(s\d+ = \w+\()'", r"\1'subdir/", t, flags=re.M)
                    for rel, t in sorted(text.items()))
            else:
                w.write('build.bfg', text)
            if i == 0:
                r = R.run_bfg(w, ['configure', w.build, '--backend=msbuild',
                                  '--no-resolve-packages', '--prefix=' +
                                  os.path.join(w.root, 'prefix')], env=env,
                              cwd=w.src)
            else:
                r = R.run_bfg(w, ['regenerate', w.build], env=env, cwd=w.src)
            trace.append(['run', i, r.status])
            if not r.ok and may_fail:
                # a temporarily broken script: the failed run must not
                # disturb the GUIDs of the projects that still exist
                stats['failed_runs'] = stats.get('failed_runs', 0) + 1
                continue
            if not r.ok:
                raise HarnessError('bfg9000 failed on a valid script:\n' +
                                   r.output[-2000:] + '\n' + text)
            feats = {'run={}'.format('configure' if i == 0
                                     else 'regenerate')}
            cur = check_solution(w, prev, vio, feats, text)
            if cur is None:
                break
            stats['projects'] = stats.get('projects', 0) + len(cur)
            if prev is not None:
                stats['kept'] = stats.get('kept', 0) + \
                    len(set(cur) & set(prev))
                stats['added'] = stats.get('added', 0) + \
                    len(set(cur) - set(prev))
                stats['dropped'] = stats.get('dropped', 0) + \
                    len(set(prev) - set(cur))
            m = PROJ_RE.search(w.read_build('solution.sln'), re.M) \
                if False else None
            prev = cur
            trace.append(['guids', sorted(cur.items())])
    finally:
        if not os.environ.get('BFGSIM_KEEP'):
            w.destroy()
    return violations, trace, stats


def run_case(seed, root, params=None):
    params = params or {}
    rng = random.Random(seed)
    cfg = {'clock_mode': 'strict', 'bufsize': 4096, 'seed': seed}
    st = Steps(rng)
    for _ in range(rng.randint(1, 5)):
        st.add()
    scripts = [st.render()]
    kinds = []
    for _ in range(rng.randint(2, params.get('max_runs', 6))):
        for _ in range(rng.randint(1, 2)):
            k = rng.choice(['add', 'add', 'remove', 'readd', 'rename',
                            'reorder', 'default', 'default', 'keep'])
            if k == 'add':
                st.add()
            elif k == 'remove':
                st.remove()
            elif k == 'readd':
                st.readd()
            elif k == 'rename':
                st.rename()
            elif k == 'reorder':
                st.reorder()
            elif k == 'default' and st.steps:
                linked = [x['id'] for x in st.steps if not x.get('sub')]
                if not linked:
                    continue
                if len(linked) > 1 and rng.random() < 0.5:
                    st.default = rng.sample(linked, rng.randint(2, min(
                        3, len(linked))))
                else:
                    st.default = rng.choice(linked)
            kinds.append(k)
        if rng.random() < 0.25 and len(st.steps) > 1:
            # a broken intermediate version, then the fixed one
            scripts.append([st.render(broken_at=rng.randrange(
                len(st.steps))), True])
            kinds.append('broken')
        scripts.append(st.render())
    violations, trace, stats = execute(root, cfg, scripts)
    return {'cfg': cfg, 'scripts': scripts, 'kinds': kinds,
            'violations': violations, 'trace': trace, 'stats': stats}


PARAMS = {
    'quick': {'budget': 60, 'max_runs': 5},
    'thorough': {'budget': 600, 'max_runs': 9},
}

EVIDENCE = {
    'level': 'exploration',
    'rule': ('one case = a history of 3-10 bfg9000 runs (configure, then '
             'regenerate after each script edit) with the MSBuild backend '
             'over scripts of executables, shared/static/dual libraries, '
             'commands and aliases with dependencies between them; edits '
             'add / keep / remove / re-add / rename / reorder steps and '
             'change the default; distinct = distinct sequence of edit kinds '
             'x initial script shape; non-trivial = at least one project '
             'survived from one run to the next and at least one was added '
             'or dropped'),
    'real': ['bfg9000 from /repo working tree (MSBuild backend, .bfg_uuid '
             'persistence)'],
    'stubs': ['cl/link/lib detection stubs (nothing is built: there is no '
              'msbuild here)', 'uuid4 (seeded stream)',
              'clock (logical mtimes)'],
    'assumptions': [
        'ONLY the GUID clause of C20 is decided; the Windows command-line '
        'quoting clause is a pure string function and is not checked by '
        'this technique',
        'project identity across runs = (name, path) as written in the .sln',
        'crashes between the .sln write and the .bfg_uuid save are not '
        'injected (the statement does not quantify over crashes)',
    ],
}


def _text(s):
    s = s[0] if isinstance(s, (list, tuple)) else s
    if isinstance(s, dict):
        return '\n'.join(s[k] for k in sorted(s))
    return s


def summarise(case):
    shape = '|'.join(case['kinds']) + '#' + hashlib.sha256(
        _text(case['scripts'][0]).encode()).hexdigest()[:8]
    st = case['stats']
    rep = None
    if case['violations']:
        rep = {'property': PROP, 'seed': case['seed'], 'cfg': case['cfg'],
               'ops': [['script', s] for s in case['scripts']]}
    return {
        'seed': case['seed'],
        'violations': [v.to_json() for v in case['violations']],
        'stats': dict(st, runs=len(case['scripts'])),
        'nontrivial': st.get('kept', 0) > 0 and
        (st.get('added', 0) + st.get('dropped', 0)) > 0,
        'shape': hashlib.sha256(shape.encode()).hexdigest()[:16],
        'digest': hashlib.sha256(repr(case['trace']).encode())
        .hexdigest()[:16],
        'sample': {'seed': case['seed'], 'edit_kinds': case['kinds'],
                   'first_script': _text(case['scripts'][0]).split('\n'),
                   'last_script': _text(case['scripts'][-1]).split('\n')},
        'replay': rep,
        'wall': case.get('wall'),
    }


def replay(rep, root):
    scripts = [op[1] for op in rep['ops'] if op[0] == 'script']
    violations, _, _ = execute(root, rep['cfg'], scripts)
    return [v.to_json() for v in violations]


def minimise(rep, v, root, deadline):
    import copy
    import time
    from .minimise import ddmin, same_class
    best = {'rep': rep, 'v': v}

    def attempt(ops):
        if time.monotonic() > deadline or not ops:
            return False
        cand = dict(best['rep'], ops=ops)
        try:
            vios = replay(cand, root)
        except Exception:
            return False
        hit = same_class(vios, v)
        if hit is not None:
            best['rep'], best['v'] = cand, hit
            return True
        return False
    ddmin(best['rep']['ops'], attempt, deadline)
    # drop lines of the remaining scripts
    for i in range(len(best['rep']['ops'])):
        if not isinstance(best['rep']['ops'][i][1], str):
            continue
        lines = best['rep']['ops'][i][1].split('\n')
        j = len(lines) - 1
        while j >= 2 and time.monotonic() < deadline:
            cand = copy.deepcopy(best['rep']['ops'])
            l2 = cand[i][1].split('\n')
            del l2[j]
            cand[i][1] = '\n'.join(l2)
            attempt(cand)
            j -= 1
    return best['rep'], best['v']
