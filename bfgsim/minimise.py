"""Replay minimisation: ddmin over the operation list, then greedy removal of
script statements and files, keeping a candidate only while the same violation
class (property, oracle) persists."""

import copy
import time


KEY_PREFIXES = ('fault=', 'site=', 'stale:', 'differs:', 'via=', 'attempt=',
                'persist', 'link-copy')


def key_features(v):
    return sorted(f for f in v.get('features', [])
                  if f.startswith(KEY_PREFIXES))


def same_class(vios, want):
    """Same property and oracle, and the same key features (so that shrinking
    does not drift to a different defect that trips the same oracle)."""
    for v in vios:
        if v['property'] == want['property'] and \
           v['oracle'] == want['oracle'] and \
           key_features(v) == key_features(want):
            return v
    return None


def ddmin(items, test, deadline, keep=lambda x: False):
    """Classic delta debugging over a list; `test(sub)` is True when the
    failure persists."""
    n = 2
    items = list(items)
    while len(items) >= 2 and time.monotonic() < deadline:
        chunk = max(1, len(items) // n)
        reduced = False
        for i in range(0, len(items), chunk):
            cand = items[:i] + items[i + chunk:]
            if any(keep(x) for x in items[i:i + chunk]):
                cand = items[:i] + [x for x in items[i:i + chunk]
                                    if keep(x)] + items[i + chunk:]
                if len(cand) == len(items):
                    continue
            if time.monotonic() > deadline:
                break
            if test(cand):
                items = cand
                n = max(n - 1, 2)
                reduced = True
                break
        if not reduced:
            if chunk == 1:
                break
            n = min(len(items), n * 2)
    if len(items) == 1 and time.monotonic() < deadline and test([]):
        items = []
    return items


def minimise_replay(rep, want, run, deadline, max_runs=200,
                    keep=lambda op: False):
    """rep: replay dict with 'ops' and 'project'; run(rep) -> list of
    violation dicts.  Returns (rep, violation) minimised."""
    runs = [0]
    best = {'rep': rep, 'v': want}

    def attempt(cand):
        if runs[0] >= max_runs or time.monotonic() > deadline:
            return False
        runs[0] += 1
        try:
            vios = run(cand)
        except Exception:
            return False
        v = same_class(vios, want)
        if v is not None:
            best['rep'], best['v'] = cand, v
            return True
        return False

    def with_ops(ops):
        c = copy.deepcopy(best['rep'])
        c['ops'] = ops
        return c

    # ops after the violating one are never executed: cut them first
    idx = want.get('op_index')
    if idx is not None and idx + 1 < len(rep['ops']):
        attempt(with_ops(rep['ops'][:idx + 1]))
    ddmin(best['rep']['ops'], lambda ops: attempt(with_ops(ops)), deadline,
          keep)

    # statements of the project's scripts, last to first
    proj = best['rep'].get('project')
    if proj:
        for script in sorted(proj['scripts']):
            i = len(best['rep']['project']['scripts'][script]) - 1
            while i >= 0 and time.monotonic() < deadline:
                c = copy.deepcopy(best['rep'])
                del c['project']['scripts'][script][i]
                attempt(c)
                i -= 1
        for f in sorted(best['rep']['project']['files']):
            if time.monotonic() > deadline:
                break
            c = copy.deepcopy(best['rep'])
            del c['project']['files'][f]
            attempt(c)
    best['rep']['minimise_runs'] = runs[0]
    return best['rep'], best['v']
