"""setup_cmd: verify that /venv's bfg9000 is the editable install of /repo and
that the tools the simulator drives are present.  Nothing is compiled: stubs
are generated sh/Python scripts, everything else is Python run by /venv."""
import os
import shutil
import subprocess
import sys


def main():
    try:
        import bfg9000
        where = os.path.realpath(os.path.dirname(bfg9000.__file__))
    except ImportError:
        where = ''
    if not where.startswith('/repo/'):
        print('bfg9000 not importable from /repo ({!r}); reinstalling'
              .format(where))
        subprocess.check_call([sys.executable, '-m', 'pip', 'install',
                               '--no-index', '--no-deps',
                               '--no-build-isolation', '-e', '/repo'])
    for tool in ('make', 'gcc', 'sh'):
        if not shutil.which(tool):
            print('missing tool: ' + tool)
            return 1
    for exe in ('/venv/bin/bfg9000', '/venv/bin/bfg9000-depfixer'):
        if not os.path.exists(exe):
            print('missing ' + exe)
            return 1
    sys.path.insert(0, os.path.dirname(os.path.dirname(
        os.path.abspath(__file__))))
    from bfgsim import refninja_selftest
    failures = refninja_selftest.run_all()
    if failures:
        print('reference ninja self-tests failed:')
        for f in failures:
            print('  ' + f)
        return 1
    print('setup ok: bfg9000 from', where or '/repo (reinstalled)',
          '- reference ninja self-tests passed ({})'.format(
              len(refninja_selftest.TESTS)))
    return 0


if __name__ == '__main__':
    sys.exit(main())
