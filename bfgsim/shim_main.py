"""Entry point for every bfg9000 process of a world.

Fresh-interpreter form (used by <world>/bin/bfg9000, i.e. when the *backend*
launches `bfg9000 regenerate --lazy`, and by checks that need their own
PYTHONHASHSEED):

    python shim_main.py <world> <prog> [bfg9000 args...]

In-process form: run_in_child(...) after a fork (see bfgrun.py).
"""

import json
import os
import sys


def _load_cfg(root):
    try:
        with open(os.path.join(root, 'log', 'config.json')) as f:
            return json.load(f)
    except FileNotFoundError:
        return {}


def _take_fault(root):
    """A fault plan left in log/fault.json is consumed by the first bfg9000
    process that starts (driver- or backend-launched)."""
    p = os.path.join(root, 'log', 'fault.json')
    try:
        with open(p) as f:
            fault = json.load(f)
    except FileNotFoundError:
        return None
    os.remove(p)
    return fault


def _count_lines(path):
    try:
        with open(path) as f:
            return sum(1 for _ in f)
    except FileNotFoundError:
        return 0


def _count_launch(root):
    p = os.path.join(root, 'log', 'launches')
    try:
        with open(p) as f:
            n = int(f.read().strip() or 0)
    except FileNotFoundError:
        n = 0
    n += 1
    with open(p, 'w') as f:
        f.write(str(n))
    return n


def run_in_child(root, prog, argv, *, tag='driver', fault=None,
                 backend_launched=False):
    """Install the shim and run bfg9000's main; never returns."""
    from . import shim as _shim
    from . import world as _w

    cfg = _load_cfg(root)
    if fault is None:
        fault = _take_fault(root)
    nlaunch = _count_launch(root)
    limit = cfg.get('launch_limit', 3)

    sys.argv = [prog] + list(argv)
    sh = _shim.Shim(root, fault=fault,
                    clock_mode=cfg.get('clock_mode', 'strict'),
                    bufsize=cfg.get('bufsize', 4096),
                    uuid_seed=(cfg.get('seed', 0) * 1000003 +
                               _count_lines(os.path.join(root, 'log',
                                                         'invocations'))),
                    tag=tag)
    if backend_launched and nlaunch > limit:
        sys.stderr.write('bfgsim: launch limit exceeded (livelock)\n')
        sh.finish('livelock', 75)
        os._exit(75)

    import bfg9000.backends
    import bfg9000.driver
    bfg9000.backends.list_backends._reset()
    sh.install()

    status = 1
    outcome = 'error'
    try:
        name = os.path.basename(prog)
        if name == '9k':
            rc = bfg9000.driver.simple_main()
        else:
            rc = bfg9000.driver.main()
        # console scripts do sys.exit(main()): None/0 -> 0, an int -> itself,
        # anything else is printed to stderr and becomes status 1
        if rc is None:
            status = 0
        elif isinstance(rc, int):
            status = rc
        else:
            sys.stderr.write(str(rc) + '\n')
            status = 1
        outcome = 'ok' if status == 0 else 'error'
    except SystemExit as e:
        code = e.code
        if not isinstance(code, int) and code is not None:
            sys.stderr.write(str(code) + '\n')
        status = code if isinstance(code, int) else (0 if code is None else 1)
        outcome = 'ok' if status == 0 else 'error'
    except BaseException as e:   # noqa
        import traceback
        traceback.print_exc()
        status, outcome = 1, 'crash:' + type(e).__name__
    try:
        sys.stdout.flush()
        sys.stderr.flush()
    except Exception:
        pass
    if outcome == 'ok':
        def is_buildfile(rel):
            base = rel[len('build/'):] if rel.startswith('build/') else rel
            return (base in ('Makefile', 'build.ninja', 'Makefile.tmp',
                             'build.ninja.tmp') or base.endswith('.sln'))
        wrote = any(k in ('open', 'rename') and is_buildfile(r)
                    for k, r in sh.events)
        outcome = 'full' if wrote else 'noop'
    sh.finish(outcome, status)
    os._exit(status)


def main():
    root, prog = sys.argv[1], sys.argv[2]
    here = os.path.dirname(os.path.dirname(os.path.abspath(__file__)))
    sys.path.insert(0, here)
    from bfgsim import world as _w
    w = _w.World(root, create=False)
    # Nothing written earlier in the same backend run may end up newer than
    # what this process is about to write.
    w.normalise()
    tag = os.environ.pop('BFGSIM_TAG', 'backend')
    repo = os.environ.pop('BFGSIM_REPO', None)
    if repo:
        sys.path.insert(0, repo)
    for k in ('PYTHONHASHSEED', 'PYTHONDONTWRITEBYTECODE'):
        os.environ.pop(k, None)
    sys.dont_write_bytecode = True
    from bfgsim.shim_main import run_in_child as go
    go(root, prog, sys.argv[3:], tag=tag, backend_launched=(tag == 'backend'))


if __name__ == '__main__':
    main()
