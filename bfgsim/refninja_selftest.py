"""Self-tests of the reference Ninja: hand-written manifests with expected
evaluation results, dirtiness decisions and clean sets (written from the Ninja
manual's examples).  Run by setup_cmd and at the start of every check that
drives the Ninja backend."""

import os
import shutil
import sys

from . import refninja as N
from . import world as W


class T:
    def __init__(self, root):
        self.w = W.World(root)
        self.env = {'PATH': '/usr/bin:/bin'}
        # plain tools inside commands: use tick-stamping by normalise()

    def manifest(self, text):
        with open(self.w.b('build.ninja'), 'w') as f:
            f.write(text)
        W.stamp(self.w.b('build.ninja'), self.w.next_tick())

    def src(self, name, text='x\n'):
        p = self.w.b(name)
        os.makedirs(os.path.dirname(p), exist_ok=True)
        with open(p, 'w') as f:
            f.write(text)
        W.stamp(p, self.w.next_tick())

    def build(self, *goals, seed=0, jobs=1):
        r = N.build(self.w, list(goals), self.env, seed, jobs)
        self.w.normalise()
        return r

    def read(self, name):
        with open(self.w.b(name)) as f:
            return f.read()


def check(cond, msg):
    if not cond:
        raise AssertionError(msg)


def t_scoping(t):
    # the manual's scoping example
    t.manifest('''
foo = bar
rule demo
  command = echo "this is a demo of $foo" > $out
build inner: demo
  foo = bar2
build outer: demo
foo = baz
build late: demo
''')
    r = t.build('inner', 'outer', 'late')
    check(r.ok, r.output)
    check(t.read('inner') == 'this is a demo of bar2\n', t.read('inner'))
    # rule variables are expanded at edge evaluation time in file scope:
    # the *final* value of a top-level variable is not used, but the value at
    # the point... ninja evaluates lazily against the scope object, which
    # holds the last assignment
    check(t.read('outer') in ('this is a demo of baz\n',), t.read('outer'))
    check(t.read('late') == 'this is a demo of baz\n', t.read('late'))


def t_escapes(t):
    t.src('a b.in', 'AB\n')
    t.src('c$d.in', 'CD\n')
    t.manifest('''
rule cat
  command = cat $in > $out
build out$ 1.txt: cat a$ b.in c$$d.in
build colon$:name: cat a$ b.in
rule lit
  command = printf '%s' '$$HOME $ x$:y' > $out
build lit.txt: lit
build long.txt: cat $
    a$ b.in
''')
    r = t.build('out 1.txt', 'colon:name', 'lit.txt', 'long.txt')
    check(r.ok, r.output)
    check(t.read('out 1.txt') == 'AB\nCD\n', 'in/out escaping')
    check(t.read('colon:name') == 'AB\n', 'colon in output')
    check(t.read('lit.txt') == '$HOME  x:y', repr(t.read('lit.txt')))
    check(t.read('long.txt') == 'AB\n', 'continuation')


def t_dirty_and_null(t):
    t.src('a.in')
    t.manifest('''
rule cp
  command = cp $in $out
build a.out: cp a.in
build b.out: cp a.out
default b.out
''')
    r = t.build()
    check(r.ok and r.ran_edges == ['a.out', 'b.out'], r.ran_edges)
    r = t.build()
    check(r.ok and not r.ran_edges, 'null build ran ' + str(r.ran_edges))
    t.src('a.in', 'new\n')
    r = t.build()
    check(r.ran_edges == ['a.out', 'b.out'], r.ran_edges)
    os.remove(t.w.b('b.out'))
    r = t.build()
    check(r.ran_edges == ['b.out'], r.ran_edges)


def t_command_change(t):
    t.src('a.in')
    t.manifest('rule cp\n  command = cp $in $out\nbuild a.out: cp a.in\n')
    check(t.build().ran_edges == ['a.out'], 'first')
    t.manifest('rule cp\n  command = cp -f $in $out\nbuild a.out: cp a.in\n')
    check(t.build().ran_edges == ['a.out'], 'command change must rebuild')
    check(t.build().ran_edges == [], 'then quiet')


def t_phony_and_order_only(t):
    t.src('a.in')
    t.manifest('''
rule cp
  command = cp $in $out
rule touch
  command = touch $out
build PHONY: phony
build always: touch | PHONY
build gen.h: touch
build a.out: cp a.in || gen.h
build all: phony a.out always
default all
''')
    r = t.build()
    check(set(r.ran_edges) == {'always', 'gen.h', 'a.out'}, r.ran_edges)
    r = t.build()
    check(r.ran_edges == ['always'], 'phony-always-dirty: ' +
          str(r.ran_edges))
    # order-only input newer than output does not dirty the edge
    t.src('gen.h', 'newer\n')
    os.remove(t.w.b('gen.h'))
    r = t.build()
    check(sorted(r.ran_edges) == ['always', 'gen.h'], r.ran_edges)


def t_depfile_gcc(t):
    t.src('m.c', 'int x;\n')
    t.src('my hdr.h')
    t.src('do$llar.h')
    t.manifest('''
rule cc
  command = cp $in $out && printf '%s: %s my\\\\ hdr.h \\\\\\n do$$$$llar.h\\n' $out $in > $out.d
  depfile = $out.d
  deps = gcc
build m.o: cc m.c
''')
    r = t.build()
    check(r.ok, r.output)
    check(not os.path.exists(t.w.b('m.o.d')), 'deps=gcc removes depfile')
    check(t.build().ran_edges == [], 'quiet')
    t.src('my hdr.h', 'changed\n')
    check(t.build().ran_edges == ['m.o'], 'header with space')
    t.src('do$llar.h', 'changed\n')
    check(t.build().ran_edges == ['m.o'], 'header with dollar')
    os.remove(t.w.b('my hdr.h'))
    r = t.build()
    check(r.ok and r.ran_edges == ['m.o'], 'deleted discovered dep: dirty, '
          'not an error: ' + r.output)


def t_depfile_unescaped(t):
    # `depfile = $out.d` names the file WITHOUT shell quoting even when $out
    # needs quoting on the command line
    t.src('m.c')
    t.src('h.h')
    t.manifest('''
rule cc
  command = cp $in $out && printf '%s: %s h.h\\n' 'my\\ out.o' m.c > $out.d
  depfile = $out.d
  deps = gcc
build my$ out.o: cc m.c
''')
    r = t.build()
    check(r.ok, r.output)
    check(t.build().ran_edges == [], 'quiet')
    t.src('h.h', 'changed\n')
    check(t.build().ran_edges == ['my out.o'], 'depfile of an output with a '
          'blank must be found')


def t_missing_and_errors(t):
    t.manifest('rule cp\n  command = cp $in $out\nbuild a.out: cp nope.in\n')
    r = t.build()
    check(r.status == 1 and 'missing and no known rule' in r.output,
          r.output)
    t.manifest('rule cp\n  command = cp $in $out\nbuild a: cp b\n'
               'build a: cp c\n')
    r = t.build()
    check(r.status == 1 and 'multiple rules generate' in r.output, r.output)
    t.manifest('build a: nosuch b\n')
    r = t.build()
    check(r.status == 1 and 'unknown build rule' in r.output, r.output)
    t.manifest('rule cp\n  command = cp $in $out\nbuild a: cp b\n'
               'build b: cp a\n')
    r = t.build('a')
    check(r.status == 1 and 'cycle' in r.output, r.output)
    t.src('ok.in')
    t.manifest('rule bad\n  command = false\nbuild x: bad ok.in\n')
    r = t.build()
    check(r.status == 1 and 'subcommand failed' in r.output, r.output)


def t_generator_regen(t):
    t.src('gen.in', 'rule cp\n  command = cp $in $out\n'
          'build o1: cp src1\n')
    t.src('src1')
    t.src('watched')
    t.src('regen.sh', 'cp gen.in body\n'
          'cat head body > build.ninja\n'
          'echo "build.ninja: watched" > regen.d\n')
    head = '''rule regen
  command = sh regen.sh
  generator = 1
  depfile = regen.d
build build.ninja: regen | gen.in regen.sh
'''
    t.src('head', head)
    t.manifest(head)
    # an input of the generator edge is newer than the manifest
    t.src('gen.in', 'rule cp\n  command = cp $in $out\n'
          'build o1: cp src1\n')
    r = t.build()
    check(r.ok and 'o1' in r.ran_edges, r.output)
    n = r.ran_edges.count('build.ninja')
    r = t.build()
    check(r.ran_edges == [], 'quiet after regen: ' + str(r.ran_edges))
    t.src('watched', 'again\n')
    r = t.build()
    check(r.ran_edges == ['build.ninja'], 'depfile of generator rule: ' +
          str(r.ran_edges))
    # generator outputs survive -t clean, others do not
    N.clean(t.w.build)
    check(os.path.exists(t.w.b('build.ninja')) and
          not os.path.exists(t.w.b('o1')), 'clean set')


def t_schedule(t):
    for i in range(6):
        t.src('s{}.in'.format(i))
    t.manifest('rule cp\n  command = cp $in $out\n' + ''.join(
        'build s{0}.out: cp s{0}.in\n'.format(i) for i in range(6)) +
        'rule cat\n  command = cat $in > $out\n'
        'build all.out: cat ' + ' '.join('s{}.out'.format(i)
                                         for i in range(6)) + '\n')
    seen = set()
    for seed in range(6):
        shutil.rmtree(t.w.build)
        os.mkdir(t.w.build)
        t.src('dummy')
        for i in range(6):
            t.src('s{}.in'.format(i))
        t.manifest(MAN)
        r = t.build(seed=seed, jobs=4)
        check(r.ok and r.ran_edges[-1] == 'all.out' and not r.races, 'sched')
        seen.add(tuple(map(tuple, r.schedule)))
    check(len(seen) > 1, 'different seeds must give different schedules')


MAN = 'rule cp\n  command = cp $in $out\n' + ''.join(
    'build s{0}.out: cp s{0}.in\n'.format(i) for i in range(6)) + \
    'rule cat\n  command = cat $in > $out\n' \
    'build all.out: cat ' + ' '.join('s{}.out'.format(i)
                                     for i in range(6)) + '\n'


def t_race_detected(t):
    # b.out reads a.out without declaring it: with 2 jobs some schedule
    # starts b.out before a.out finished
    t.src('a.in')
    t.manifest('''
rule cp
  command = cp $in $out
rule cp2
  command = cat a.out $in > $out
build a.out: cp a.in
build b.out: cp2 a.in
''')
    bad = 0
    for seed in range(12):
        for f in ('a.out', 'b.out', N.LOG):
            try:
                os.remove(t.w.b(f))
            except OSError:
                pass
        r = t.build(seed=seed, jobs=2)
        if not r.ok:
            bad += 1
    check(bad > 0, 'an undeclared dependency must fail under some schedule')


TESTS = [t_scoping, t_escapes, t_dirty_and_null, t_command_change,
         t_phony_and_order_only, t_depfile_gcc, t_depfile_unescaped,
         t_missing_and_errors,
         t_generator_regen, t_schedule, t_race_detected]


def run_all(verbose=False):
    root = os.path.join(W.scratch_root(), 'ninja-selftest-{}'.format(
        os.getpid()))
    failures = []
    for fn in TESTS:
        t = T(os.path.join(root, fn.__name__))
        try:
            fn(t)
            if verbose:
                print('  ok', fn.__name__)
        except Exception as e:   # noqa
            failures.append('{}: {!r}'.format(fn.__name__, e))
            if verbose:
                print('  FAIL', fn.__name__, repr(e))
        finally:
            t.w.destroy()
    shutil.rmtree(root, ignore_errors=True)
    return failures


if __name__ == '__main__':
    f = run_all(verbose=True)
    print('reference ninja self-tests: {} failed of {}'.format(
        len(f), len(TESTS)))
    sys.exit(1 if f else 0)
