"""C05 (invariant form) - distinct inputs never collide on one output path;
outputs stay in the build directory.

Collision-prone projects (equal basenames in different directories, one- and
two-character components, dots in directory names, equal stems with different
extensions, ../ references out of a submodule, shared sources with and without
intermediate dirs, duplicate output names) are configured, built, regenerated,
cleaned and packaged; some configure/regenerate runs are killed.  Monitors:
containment (nothing under src/ ever changes; every write lands under build/),
single writer per path within a build, accept/reject (configuration fails iff
the script contains a true conflict as the property defines it), one compile
step per distinct source."""

import hashlib
import os
import random
import re

from . import bfgrun as R
from . import gen as G
from . import sim as S
from . import world as W
from .c03 import Graph, executed
from .sim import Violation
from .world import HarnessError

PROP = 'C05'

DIRS = ['', 'a', 'b', 'aa', 'bb', 'ab', 'io', 'src', 'a.b', 'lib/aa',
        'aa/bb', 'x', 'deep/er/dir', 't1', 'abc']
STEMS = ['x', 'y', 'io', 'ui', 't1', 'main', 'a.b', 'xx', 'util', 'ab',
         'x.y', 'x.z', 'io.v1', 'io.v2', 'a.b.c', 'util.pb', 'main.gen']
EXTS = ['.c', '.c', '.c', '.cpp', '.cc']


def stem_of(path):
    return os.path.splitext(path)[0]


class CollideGen:
    def __init__(self, rng):
        self.rng = rng

    def source_pool(self, n):
        rng = self.rng
        out = []
        while len(out) < n:
            d = rng.choice(DIRS)
            f = rng.choice(STEMS) + rng.choice(EXTS)
            p = os.path.join(d, f) if d else f
            # a path must not be both a file and a directory
            if p in out or any(o.startswith(p + '/') or p.startswith(o + '/')
                               for o in out):
                continue
            out.append(p)
        # make clashes likely: same basename elsewhere, same stem other ext
        if rng.random() < 0.7:
            p = rng.choice(out)
            d = rng.choice(DIRS)
            q = os.path.join(d, os.path.basename(p)) if d else \
                os.path.basename(p)
            if q not in out and not any(o.startswith(q + '/') or
                                        q.startswith(o + '/') for o in out):
                out.append(q)
        return out

    def generate(self, backend='make'):
        rng = self.rng
        proj = G.Project()
        main = []
        proj.scripts['build.bfg'] = main
        inter = rng.random() < 0.65
        kw = {} if inter else {'intermediate_dirs': False}
        main.append(G.Stmt('project', G.call('project', 'collide',
                                             version='1.0', **kw)))
        pool = self.source_pool(rng.randint(3, 7))
        for p in pool:
            proj.files[p] = G.c_source(p)
        targets = []     # model: dicts
        names = ['app', 'tool', 'core', 'extra']
        rng.shuffle(names)
        conflict = None
        for i in range(rng.randint(1, 3)):
            kind = rng.choice(['executable', 'executable', 'library',
                               'static_library'])
            srcs = rng.sample(pool, rng.randint(1, min(4, len(pool))))
            if rng.random() < 0.12:
                # two sources differing only in their extension
                s0 = srcs[0]
                twin = stem_of(s0) + ('.cpp' if not s0.endswith('.cpp')
                                      else '.c')
                proj.files[twin] = G.c_source(twin)
                srcs.append(twin)
            name = names[i]
            if targets and rng.random() < 0.08:
                name = targets[0]['name']      # an output named twice
                kind = targets[0]['kind']
            targets.append({'name': name, 'kind': kind, 'srcs': srcs,
                            'sub': None})
            main.append(G.Stmt(kind, G.call(kind, name, files=srcs),
                               'tgt{}'.format(i), name=name, srcs=srcs))
        if rng.random() < 0.35:
            # a submodule reaching out of its directory with ../
            sub = rng.choice(['mod', 'md', 'm', 'a', 'aa', 'lib', 'ab', 'sr'])
            inner = []
            cand = ['../' + p for p in rng.sample(pool, min(2, len(pool)))]
            # prefix confusion: a sibling directory whose name merely *starts
            # with* the submodule's name, plus the local file that a
            # string-prefix (instead of component-prefix) computation would
            # confuse it with: sub `a`, `../ab/x.c` and `b/x.c`
            sibs = [p for p in pool if '/' in p and len(p.split('/')[0]) > 1]
            if sibs and rng.random() < 0.4:
                p0 = rng.choice(sibs)
                first = p0.split('/')[0]
                k = rng.randint(1, len(first) - 1)
                if not any(q == first[:k] or q.startswith(first[:k] + '/')
                           for q in pool):
                    sub = first[:k]
                    cand = ['../' + p0]
                    local = p0[k:]
                    proj.files[os.path.join(sub, local)] = G.c_source(local)
                    cand.append(local)
                    proj.features.add('prefix-confusion')
            own = '{}.c'.format(rng.choice(STEMS))
            proj.files[os.path.join(sub, own)] = G.c_source(own)
            cand.append(own)
            if rng.random() < 0.5:
                deep = os.path.join(rng.choice(['shared', 'aa', 'x', 'b',
                                                'bb', 'c', '/aa'.strip('/')]),
                                    rng.choice(STEMS) + '.c')
                proj.files[os.path.join(sub, deep)] = G.c_source(deep)
                cand.append(deep)
            srcs = cand
            subname = rng.choice(['subapp', 'app'])
            inner.append(G.Stmt('executable', G.call('executable', subname,
                                                     files=srcs), 'subt',
                                name=subname, srcs=srcs))
            proj.scripts[os.path.join(sub, 'build.bfg')] = inner
            main.append(G.Stmt('submodule', G.call('submodule', sub),
                               'subexp', dir=sub))
            norm = [os.path.normpath(os.path.join(sub, s)) for s in srcs]
            targets.append({'name': os.path.join(sub, subname),
                            'kind': 'executable', 'srcs': norm, 'sub': sub})
        extra_conflict = None
        libs_ = [t for t in targets if t['kind'] == 'library']
        if backend == 'msbuild' and libs_ and rng.random() < 0.3:
            # MSVC naming: a shared library `foo` comes with the import
            # library foo.lib, and a static library `foo` IS foo.lib - one
            # output named twice (gcc naming keeps libfoo.so / libfoo.a apart)
            t0 = libs_[0]
            proj.files['st_only.c'] = G.c_source('st_only')
            main.append(G.Stmt('static_library', G.call(
                'static_library', t0['name'], files=['st_only.c']),
                'st_twin', name=t0['name'], srcs=['st_only.c']))
            extra_conflict = 'output-named-twice'
            proj.features.add('msvc_lib_name_clash')
        if rng.random() < 0.3:
            # a custom step with several outputs ...
            outs = ['gen/ver.h', 'gen/ver.c', 'gen/ver.txt'][:rng.randint(2,
                                                                          3)]
            proj.files['ver.in'] = 'v\n'
            # sometimes a step that always runs (a phony target for Make)
            always = True if rng.random() < 0.3 else None
            main.append(G.Stmt('build_step', G.call(
                'build_step', outs, cmd=['simtool', '--in',
                                         G.Raw('build_step.input'), '--out',
                                         G.Raw('build_step.output')],
                files=['ver.in'], always_outdated=always), 'gen'))
            proj.features.add('multi_output_step')
            if always:
                proj.features.add('always_outdated_step')
            if rng.random() < 0.4 and not extra_conflict:
                # ... and a later step that names one of them again
                clash = rng.choice(outs)
                proj.files['other.in'] = 'o\n'
                if rng.random() < 0.5:
                    main.append(G.Stmt('copy_file', G.call(
                        'copy_file', clash, 'other.in'), 'again'))
                else:
                    main.append(G.Stmt('build_step', G.call(
                        'build_step', clash, cmd=['simtool', '--in',
                                                  G.Raw('build_step.input'),
                                                  '--out',
                                                  G.Raw('build_step.output')],
                        files=['other.in']), 'again'))
                extra_conflict = 'output-named-twice'
                proj.features.add('step_output_clash')
        if backend != 'msbuild' and rng.random() < 0.12:
            # a command (phony: it writes no file) ...
            cname = rng.choice(['docs', 'gen/run', 'x'])
            main.append(G.Stmt('command', G.call(
                'command', cname, cmd=['simtool', '--arg', 'x']), 'cmd0'))
            proj.features.add('command')
            if rng.random() < 0.5 and not extra_conflict:
                # ... and a file output of the same name
                proj.files['other2.in'] = 'o\n'
                main.append(G.Stmt('copy_file', G.call(
                    'copy_file', cname, 'other2.in'), 'again2'))
                extra_conflict = 'output-named-twice'
                proj.features.add('phony_file_clash')
        if rng.random() < 0.3:
            a = rng.choice(['data', 'aa', 'io'])
            b = rng.choice(['other', 'bb', 'ui'])
            fn = rng.choice(['cfg.txt', 'x.txt'])
            proj.files[os.path.join(a, fn)] = 'a\n'
            proj.files[os.path.join(b, fn)] = 'b\n'
            kwc = {}
            main.append(G.Stmt('copy_files', G.call(
                'copy_files', [os.path.join(a, fn), os.path.join(b, fn)],
                **kwc), 'copies'))
            proj.features.add('copy_files')
        proj.model = {'targets': targets, 'intermediate_dirs': inter,
                      'extra_conflict': extra_conflict}
        if backend != 'msbuild' and rng.random() < 0.08 and \
           true_conflict(proj.model, backend) is None:
            # one source of one top-level target spelled absolutely (a path
            # into the source directory): the same file, the same target
            stmts = [st for st in main if st.kind in (
                'executable', 'library', 'static_library') and
                st.facts.get('srcs')]
            st = rng.choice(stmts)
            srcs = list(st.facts['srcs'])
            j = rng.randrange(len(srcs))
            spelled = [G.Raw("env.srcdir.string() + {!r}".format('/' + x))
                       if i == j else x for i, x in enumerate(srcs)]
            st.text = G.call(st.kind, st.facts['name'], files=spelled)
            proj.model['abs_sources'] = [srcs[j]]
            proj.features.add('absolute_source')
        proj.features.add('intermediate_dirs' if inter
                          else 'no_intermediate_dirs')
        return proj


def true_conflict(model, backend='make'):
    """The conflicts the property names: an output named twice; two sources
    of one target differing only in their extension; without intermediate
    dirs, one source (stem) compiled for two targets."""
    ts = model['targets']
    if model.get('extra_conflict'):
        return model['extra_conflict']
    seen = set()
    for t in ts:
        key = (t['name'], 'lib' if t['kind'] != 'executable' else 'exe',
               t['kind'] if t['kind'] != 'library' else 'shared')
        # library/shared/static with one name: static and shared differ
        k2 = (t['name'], t['kind'] == 'executable',
              'static' if t['kind'] == 'static_library' else 'dyn')
        if k2 in seen:
            return 'output-named-twice'
        seen.add(k2)
    for t in ts:
        stems = [stem_of(s) for s in t['srcs']]
        if len(set(stems)) != len(stems):
            if len(set(t['srcs'])) != len(t['srcs']):
                return 'same-source-twice'
            return 'same-stem-different-extension'
    if not model['intermediate_dirs'] and backend != 'msbuild':
        # (MSBuild objects always live in a per-project $(IntDir))
        seen = {}
        for i, t in enumerate(ts):
            for s in set(t['srcs']):
                st = stem_of(s)
                if st in seen and seen[st] != i:
                    return 'shared-source-without-intermediate-dirs'
                seen[st] = i
    return None


def file_dir_clash(model):
    """Not a conflict the property lists, and not one bfg9000 is asked to
    detect: an output file whose path is also needed as a directory (only
    possible without intermediate dirs).  Such scripts are skipped."""
    if model['intermediate_dirs']:
        return False
    outs = {t['name'] for t in model['targets']}
    dirs = set()
    for t in model['targets']:
        for s in t['srcs']:
            d = os.path.dirname(s)
            while d:
                dirs.add(d)
                d = os.path.dirname(d)
    libs = {os.path.join(os.path.dirname(t['name']),
                         'lib' + os.path.basename(t['name']))
            for t in model['targets'] if t['kind'] != 'executable'}
    return bool((outs | libs) & dirs)


class C05Case:
    def __init__(self, root, proj, cfg):
        self.w = W.World(root)
        msvc = proj.backend == 'msbuild'
        R.install_stubs(self.w, config=cfg, msvc=msvc)
        proj.materialise(self.w)
        self.proj = proj
        self.sim = S.Sim(self.w, proj, cfg)
        if msvc:
            self.sim.env.update({'CC': 'cl', 'CXX': 'cl'})
            self.sim.buildfile = 'collide.sln'
        self.violations = []
        self.trace = []
        self.stats = {}
        self.src0 = self.w.snapshot('src')

    def count(self, k, n=1):
        self.stats[k] = self.stats.get(k, 0) + n

    def vio(self, oracle, detail, feats=()):
        self.violations.append(Violation(
            PROP, oracle, detail, {'backend=' + self.proj.backend} |
            set(feats), len(self.trace)))

    def contained(self, what, result=None):
        now = self.w.snapshot('src')
        # what the known naming rule for absolutely spelled sources explains
        # (object, its depfile and Make's directory marker beside the source)
        # - anything else in the same case is still an unexplained escape
        explained = set()
        for a in (self.proj.model or {}).get('abs_sources', ()):
            stem = os.path.splitext(a)[0]
            d = os.path.dirname(a)
            explained |= {stem + '.o', stem + '.o.d',
                          os.path.join(d, '.dir') if d else '.dir'}
        if now != self.src0:
            changed = sorted(k for k in set(now) | set(self.src0)
                             if now.get(k) != self.src0.get(k))
            feats = {'op=' + what}
            if explained and set(changed) <= explained:
                feats = {'absolute-source'}
            self.vio('containment', '{} created or changed {} in the source '
                     'directory'.format(what, changed[:5]), feats)
            return False
        if result is not None:
            for s in result.steps:
                for wpath in s['writes']:
                    if not wpath.startswith('build/'):
                        feats = {'op=' + what}
                        if wpath.startswith('src/') and \
                           wpath[4:] in explained:
                            feats = {'absolute-source'}
                        self.vio('containment', 'a step of {} wrote {} '
                                 'outside the build directory'.format(
                                     what, wpath), feats)
                        return False
            for inv in result.inv:
                for kind, rel in inv['events']:
                    if not (rel == 'build' or rel.startswith('build/')):
                        self.vio('containment', 'bfg9000 ({}) touched {} '
                                 'outside the build directory'.format(
                                     what, rel), {'op=' + what})
                        return False
        self.count('containment_checks')
        return True


def execute(root, proj, cfg, ops):
    c = C05Case(root, proj, cfg)
    w, sim, model = c.w, c.sim, proj.model
    conflict = true_conflict(model, proj.backend)
    configured = False
    killed_before = False
    from_scratch = True     # the next build starts with no objects
    try:
        for op in ops:
            if c.violations:
                break
            k = op[0]
            if k == 'configure':
                if len(op) == 1 and killed_before:
                    # the accept/reject oracle is about the script, not about
                    # recovery from a killed run (that is C10, which allows a
                    # visible failure): start from an empty build directory
                    import shutil
                    shutil.rmtree(w.build, ignore_errors=True)
                    os.mkdir(w.build)
                    W.stamp(w.build, w.next_tick())
                    killed_before = False
                r = sim.configure(fault=op[1] if len(op) > 1 else None)
                c.trace.append(['configure', r.status,
                                bool(op[1]) if len(op) > 1 else False])
                if not c.contained('configure', r):
                    break
                if len(op) > 1 and op[1]:
                    fired = any(i.get('fired') for i in r.inv)
                    c.count('fired.kill' if fired else 'kill_not_fired')
                    killed_before = killed_before or fired or not r.ok
                    continue
                if conflict and r.ok:
                    c.vio('accept-reject', 'the script contains a conflict '
                          '({}) but configuration succeeded'.format(conflict),
                          {'conflict=' + conflict})
                elif not conflict and not r.ok:
                    c.vio('accept-reject', 'the script has no conflicting '
                          'outputs but configuration failed:\n{}'.format(
                              r.output[-700:]), {'valid-script-rejected'})
                elif conflict:
                    c.count('rejected.' + conflict)
                    # (the MSBuild writer lists the projects in the .sln
                    # before the project files, which carry the rules, are
                    # produced: the statement is about conflicting *rules*)
                    if proj.backend != 'msbuild' and \
                       os.path.exists(w.b(sim.buildfile)):
                        c.vio('accept-reject', 'configuration failed on a '
                              'conflict but still wrote ' + sim.buildfile,
                              {'conflict=' + conflict})
                else:
                    c.count('accepted')
                    configured = True
                    if proj.backend == 'msbuild':
                        check_vcxproj_objects(c)
            elif not configured:
                continue
            elif proj.backend == 'msbuild' and k != 'regenerate':
                continue        # nothing can execute a solution here
            elif k == 'build':
                r = sim.backend_run([])
                c.trace.append(['build', r.status, len(r.steps)])
                if not c.contained('build', r):
                    break
                if not r.ok:
                    c.vio('builds', 'an accepted script does not build:\n' +
                          r.output[-900:])
                    break
                for out, inp in (getattr(r, 'races', []) +
                                 getattr(r, 'missing_at_start', [])):
                    c.vio('single-writer', 'schedule race between steps: {} '
                          'vs {}'.format(out, inp))
                writers = {}
                for s in r.steps:
                    key = Graph.key_of(s)
                    for wp in s['writes']:
                        if wp in writers and writers[wp] != key:
                            c.vio('single-writer', '{} is written by two '
                                  'different steps of one build'.format(wp))
                        writers[wp] = key
                if c.violations:
                    break
                if not from_scratch:
                    c.count('builds')
                    continue
                from_scratch = False
                # one compile step per distinct source of each target
                compiled = {}
                for s in r.steps:
                    if '-c' in s['argv']:
                        src = s['argv'][s['argv'].index('-c') + 1]
                        src = os.path.relpath(src, w.src) \
                            if os.path.isabs(src) else src
                        compiled.setdefault(src, []).append(
                            [x for x in s['writes']
                             if not x.endswith('.d')][0])
                want = {}
                for t in model['targets']:
                    for sfile in set(t['srcs']):
                        want[sfile] = want.get(sfile, 0) + 1
                for sfile, n in want.items():
                    got = len(compiled.get(sfile, []))
                    if got != n:
                        c.vio('one-object-per-source', '{} is a source of '
                              '{} target(s) but was compiled {} time(s): {}'
                              .format(sfile, n, got,
                                      compiled.get(sfile)))
                        break
                objs = [o for v in compiled.values() for o in v]
                if len(set(objs)) != len(objs):
                    c.vio('single-writer', 'two compile steps share an '
                          'object path')
                c.count('builds')
            elif k == 'regenerate':
                r = sim.bfg(['regenerate', w.build],
                            fault=op[1] if len(op) > 1 else None)
                c.trace.append(['regenerate', r.status])
                c.contained('regenerate', r)
            elif k == 'clean':
                r = sim.backend_run(['clean'])
                from_scratch = True
                c.trace.append(['clean', r.status])
                c.contained('clean', r)
            elif k == 'dist':
                r = sim.backend_run(['dist-gzip'])
                c.trace.append(['dist', r.status])
                c.contained('dist', r)
                if not r.ok:
                    c.vio('builds', 'dist-gzip fails:\n' + r.output[-600:])
            else:
                raise HarnessError('unknown op {}'.format(op))
    finally:
        if not os.environ.get('BFGSIM_KEEP'):
            w.destroy()
    return c


CL_RE = re.compile(r'<ClCompile Include="([^"]+)"\s*(/>|>(.*?)</ClCompile>)',
                   re.S)
OBJ_RE = re.compile(r'<ObjectFileName>([^<]+)</ObjectFileName>')


def check_vcxproj_objects(c):
    """MSBuild: within one project every source must compile to its own
    object (default $(IntDir)%(Filename).obj unless ObjectFileName is
    given)."""
    w = c.w
    for base, dirs, files in os.walk(w.build):
        for f in files:
            if not f.endswith('.vcxproj'):
                continue
            with open(os.path.join(base, f)) as fh:
                text = fh.read()
            objs = {}
            for m in CL_RE.finditer(text):
                src = m.group(1)
                om = OBJ_RE.search(m.group(3) or '')
                if om:
                    obj = om.group(1).lower()
                else:
                    stem = os.path.splitext(src.replace('\\', '/')
                                            .split('/')[-1])[0]
                    obj = '$(intdir)' + stem.lower() + '.obj'
                if obj in objs:
                    c.vio('single-writer', 'MSBuild project {}: {} and {} '
                          'both compile to {}'.format(f, objs[obj], src,
                                                      obj), {'msbuild'})
                    return
                objs[obj] = src
    c.count('vcxproj_object_checks')


def run_case(seed, root, params=None):
    params = params or {}
    rng = random.Random(seed)
    backend = rng.choice(params.get('backends', ['make', 'make', 'ninja',
                                                 'ninja', 'msbuild']))
    cfg = {'clock_mode': 'strict', 'bufsize': 4096, 'seed': seed,
           'jobs': rng.choice([1, 2, 4, 8])}
    for _ in range(20):
        proj = CollideGen(rng).generate(backend)
        proj.backend = backend
        if not file_dir_clash(proj.model):
            break
    ops = []
    if rng.random() < 0.25:
        ops.append(['configure', {'kind': 'kill', 'at': rng.randrange(25)}])
    ops.append(['configure'])
    tail = [['build'], ['regenerate'], ['build'], ['clean'], ['dist'],
            ['regenerate', {'kind': 'kill', 'at': rng.randrange(25)}]]
    rng.shuffle(tail)
    ops += [['build']] + tail[:rng.randint(2, 5)]
    c = execute(root, proj, cfg, ops)
    return {'proj': proj, 'cfg': cfg, 'ops': ops,
            'violations': c.violations, 'trace': c.trace, 'stats': c.stats,
            'conflict': true_conflict(proj.model, proj.backend)}


PARAMS = {
    'quick': {'budget': 60},
    'thorough': {'budget': 600},
}

EVIDENCE = {
    'level': 'exploration',
    'rule': ('one case = one collision-prone project (sources drawn from a '
             'pool of one/two/three-character and dotted directory names, '
             'equal basenames in different directories, equal stems with '
             'different extensions, ../ references out of a submodule, '
             'sources shared by targets, duplicate output names; with and '
             'without intermediate_dirs) + a history of configure (sometimes '
             'killed first), build, regenerate (sometimes killed), clean, '
             'dist; distinct = distinct (conflict class, target/source '
             'layout hash, op sequence); non-trivial = the project was '
             'either rejected for a true conflict or accepted and built'),
    'real': ['bfg9000 from /repo working tree', 'GNU make 4.3', 'doppel '
             '(dist)'],
    'stubs': ['cc/c++/ar hashing stubs', 'clock (logical mtimes)',
              'kill at audit events'],
    'assumptions': [
        'invariant form only: this samples the path space with a '
        'collision-prone generator, it does not cover all pairs of paths',
        'the literal component PAR is excluded, as in the property',
        'scripts in which an output file name is also needed as a directory '
        '(only possible without intermediate dirs) are not generated: the '
        'property does not list that clash',
    ],
}


def summarise(case):
    proj = case['proj']
    layout = repr(proj.model)
    shape = '|'.join([str(case['conflict']), hashlib.sha256(
        layout.encode()).hexdigest()[:10],
        ','.join(o[0] + ('!' if len(o) > 1 else '') for o in case['ops'])])
    rep = None
    if case['violations']:
        rep = {'property': PROP, 'seed': case['seed'], 'ops': case['ops'],
               'project': proj.to_json(), 'cfg': case['cfg']}
    st = dict(case['stats'])
    return {
        'seed': case['seed'],
        'violations': [v.to_json() for v in case['violations']],
        'stats': dict(st, **{'backend.' + proj.backend: 1}),
        'nontrivial': bool(st.get('accepted') or
                           any(k.startswith('rejected.') for k in st)),
        'shape': hashlib.sha256(shape.encode()).hexdigest()[:16],
        'digest': hashlib.sha256(repr(case['trace']).encode())
        .hexdigest()[:16],
        'sample': {'seed': case['seed'], 'conflict': case['conflict'],
                   'targets': proj.model['targets'],
                   'intermediate_dirs': proj.model['intermediate_dirs'],
                   'ops': case['ops']},
        'replay': rep,
        'wall': case.get('wall'),
    }


def replay(rep, root):
    proj = G.Project.from_json(rep['project'])
    c = execute(root, proj, rep['cfg'], rep['ops'])
    return [v.to_json() for v in c.violations]


def minimise(rep, v, root, deadline):
    # only the operation list is shrunk: the conflict model is stored next to
    # the script, so dropping statements would desynchronise the two
    import time
    from .minimise import ddmin, same_class
    best = {'rep': rep, 'v': v}

    def attempt(ops):
        if time.monotonic() > deadline:
            return False
        cand = dict(best['rep'], ops=ops)
        try:
            vios = replay(cand, root)
        except Exception:
            return False
        hit = same_class(vios, v)
        if hit is not None:
            best['rep'], best['v'] = cand, hit
            return True
        return False
    ddmin(best['rep']['ops'], attempt, deadline)
    return best['rep'], best['v']
