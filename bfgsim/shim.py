"""In-process shim installed inside every bfg9000 process of a world.

Owns, for that process: the clock (every file bfg9000 writes or touches gets a
logical tick), the crash points (numbered mutation events, kill / OSError at a
chosen index), directory enumeration order, uuid4, and the invocation log.
Nothing under /repo is modified; all of this is monkey-patching and
sys.addaudithook inside a child process that exits afterwards.
"""

import builtins
import errno as _errno
import fnmatch
import json
import os
import sys

from . import world as _w

_real_open = builtins.open
_real_utime = os.utime
_real_listdir = os.listdir

WRITE_FLAGS = os.O_WRONLY | os.O_RDWR | os.O_CREAT | os.O_TRUNC | os.O_APPEND

AUDITED = {
    'os.mkdir': 'mkdir', 'os.rmdir': 'rmdir', 'os.remove': 'remove',
    'os.rename': 'rename', 'os.truncate': 'truncate', 'os.utime': 'utime',
    'os.symlink': 'symlink', 'os.link': 'link',
}


class Shim:
    def __init__(self, root, *, fault=None, clock_mode='strict', bufsize=4096,
                 uuid_seed=0, tag='run'):
        self.root = os.path.realpath(root)
        self.build = os.path.join(self.root, 'build')
        self.fault = dict(fault) if fault else None
        self.clock_mode = clock_mode
        self.bufsize = bufsize
        self.tag = tag
        self.events = []
        self.fired = None
        self.internal = 0
        self.open_proxies = []
        self.persist_err = None
        self.proc_tick = None
        self.uuid_seed = uuid_seed
        self.active = True

    # -- clock ---------------------------------------------------------------
    def tick_for_write(self):
        if self.clock_mode == 'coarse':
            if self.proc_tick is None:
                self.proc_tick = _w.next_tick(self.root)
            return self.proc_tick
        return _w.next_tick(self.root)

    def stamp(self, path):
        t = self.tick_for_write()
        self.internal += 1
        try:
            ns = _w.tick_ns(t)
            _real_utime(path, ns=(ns, ns))
        except OSError:
            pass
        finally:
            self.internal -= 1

    # -- events and faults -----------------------------------------------------
    def under_world(self, path):
        try:
            if isinstance(path, bytes):
                path = os.fsdecode(path)
            if not isinstance(path, str):
                return None
            p = os.path.abspath(path)
        except Exception:
            return None
        if p == self.root or p.startswith(self.root + os.sep):
            return os.path.relpath(p, self.root)
        return None

    def event(self, kind, rel):
        """Register mutation event; fire the planned fault if it is due."""
        idx = len(self.events)
        self.events.append([kind, rel])
        f = self.fault
        if self.persist_err is not None and kind in ('open', 'write', 'mkdir',
                                                     'rename'):
            raise OSError(self.persist_err, os.strerror(self.persist_err),
                          rel)
        if f is None or self.fired is not None:
            return
        if 'match' in f:
            # symbolic coordinate: the n-th event of a kind on a path glob
            # (robust against unrelated changes of the event stream; used by
            # hand-written pinned replays)
            mk, mglob = f['match']
            if kind != mk or not fnmatch.fnmatch(rel, mglob):
                return
            self.match_count = getattr(self, 'match_count', 0) + 1
            if self.match_count != f.get('nth', 1):
                return
        elif f.get('at') != idx:
            return
        if f['kind'] == 'kill':
            self.fired = {'kind': 'kill', 'at': idx, 'event': [kind, rel]}
            self.die(137)
        elif f['kind'] == 'oserror':
            if kind in ('close',):
                return   # a close cannot usefully fail here; fault not fired
            code = getattr(_errno, f.get('errno', 'ENOSPC'))
            self.fired = {'kind': 'oserror', 'at': idx, 'event': [kind, rel],
                          'errno': f.get('errno', 'ENOSPC')}
            if f.get('persist'):
                self.persist_err = code
            raise OSError(code, os.strerror(code), rel)

    def die(self, status):
        # SIGKILL semantics: what reached the kernel stays, Python-level
        # buffers are lost.  Files that are open for writing were last
        # modified "now".
        for p in list(self.open_proxies):
            if p.dirty_on_disk:
                self.stamp(p.path)
            try:
                os.close(p.fd)
            except OSError:
                pass
        self.finish('killed', status)
        os._exit(status)

    def finish(self, outcome, status):
        if not self.active:
            return
        self.active = False
        rec = {
            'tag': self.tag, 'outcome': outcome, 'status': status,
            'events': self.events, 'fired': self.fired,
            'argv': sys.argv[1:], 'cwd': _safe_cwd(),
        }
        self.internal += 1
        try:
            with _real_open(os.path.join(self.root, 'log', 'invocations'),
                            'a') as f:
                f.write(json.dumps(rec) + '\n')
        finally:
            self.internal -= 1

    # -- hooks -------------------------------------------------------------------
    def audit(self, name, args):
        if self.internal or not self.active:
            return
        if name == 'open':
            path, _mode, flags = args
            if isinstance(flags, int) and flags & WRITE_FLAGS:
                rel = self.under_world(path)
                if rel is not None and not rel.startswith('log/') and \
                   rel != 'clock':
                    self.event('open', rel)
        elif name in AUDITED:
            rel = self.under_world(args[0])
            if rel is not None and not rel.startswith('log/'):
                self.event(AUDITED[name], rel)

    def install(self):
        shim = self
        sys.addaudithook(self.audit)

        def open_(file, mode='r', *args, **kwargs):
            if isinstance(file, (str, bytes, os.PathLike)) and \
               any(c in mode for c in 'wax+'):
                rel = shim.under_world(os.fspath(file))
                if rel is not None and not rel.startswith('log/') and \
                   rel != 'clock' and not shim.internal and shim.active:
                    return WriteProxy(shim, os.fspath(file), rel, mode,
                                      kwargs.get('encoding'))
            return _real_open(file, mode, *args, **kwargs)

        def utime(path, times=None, *, ns=None, **kwargs):
            if times is None and ns is None and not shim.internal and \
               shim.under_world(path) is not None:
                t = shim.tick_for_write()
                n = _w.tick_ns(t)
                return _real_utime(path, ns=(n, n), **kwargs)
            if ns is not None:
                return _real_utime(path, ns=ns, **kwargs)
            return _real_utime(path, times, **kwargs)

        def listdir(path='.'):
            return sorted(_real_listdir(path))

        builtins.open = open_
        import io
        io.open = open_
        os.utime = utime
        os.listdir = listdir

        # the machine type the kernel reports belongs to the ambient as well
        if os.environ.get('BFGSIM_PERSONALITY') == 'linux32':
            import ctypes
            import platform
            ctypes.CDLL(None).personality(0x0008)      # PER_LINUX32
            platform._uname_cache = None

        import random
        import uuid
        rng = random.Random(self.uuid_seed)

        def uuid4():
            return uuid.UUID(int=rng.getrandbits(128), version=4)
        uuid.uuid4 = uuid4


def _safe_cwd():
    try:
        return os.getcwd()
    except OSError:
        return None


class WriteProxy:
    """File object for write-mode opens under the world: explicit buffer,
    one mutation event per chunk that reaches the kernel, logical stamp."""

    def __init__(self, shim, path, rel, mode, encoding=None):
        self.shim = shim
        self.path = path
        self.rel = rel
        self.mode = mode
        self.binary = 'b' in mode
        self.encoding = encoding or 'utf-8'
        self.buf = bytearray()
        self.closed = False
        self.dirty_on_disk = False
        self.name = path
        flags = os.O_WRONLY | os.O_CREAT | getattr(os, 'O_CLOEXEC', 0)
        if 'a' in mode:
            flags |= os.O_APPEND
        elif 'x' in mode:
            flags |= os.O_EXCL
        elif 'w' in mode:
            flags |= os.O_TRUNC
        if '+' in mode:
            flags = (flags & ~os.O_WRONLY) | os.O_RDWR
        # os.open raises the 'open' audit event -> counted (and maybe faulted)
        # by Shim.audit before the file is created or truncated.
        self.fd = os.open(path, flags, 0o666)
        self.dirty_on_disk = True   # creation/truncation changed the file
        shim.open_proxies.append(self)

    def write(self, data):
        if self.closed:
            raise ValueError('I/O operation on closed file')
        if isinstance(data, str):
            if self.binary:
                raise TypeError('a bytes-like object is required')
            data = data.encode(self.encoding)
        self.buf += data
        self._drain(final=False)
        return len(data)

    def writelines(self, lines):
        for i in lines:
            self.write(i)

    def _drain(self, final):
        n = self.shim.bufsize
        while len(self.buf) >= n or (final and self.buf):
            chunk = bytes(self.buf[:n])
            self.shim.event('write', self.rel)   # may kill or raise
            os.write(self.fd, chunk)
            self.dirty_on_disk = True
            del self.buf[:len(chunk)]

    def flush(self):
        if not self.closed:
            self._drain(final=True)

    def close(self):
        if self.closed:
            return
        try:
            self._drain(final=True)
        finally:
            self.closed = True
            try:
                self.shim.event('close', self.rel)
            finally:
                os.close(self.fd)
                if self in self.shim.open_proxies:
                    self.shim.open_proxies.remove(self)
                self.shim.stamp(self.path)

    def fileno(self):
        return self.fd

    def writable(self):
        return True

    def readable(self):
        return False

    def seekable(self):
        return False

    def isatty(self):
        return False

    def __enter__(self):
        return self

    def __exit__(self, *exc):
        self.close()
        return False

    def __del__(self):
        try:
            if not self.closed:
                os.close(self.fd)
        except Exception:
            pass
