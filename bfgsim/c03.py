"""C03 - the generated dependency graph equals the graph the build script
describes.

World = generated project (libraries, executables, shared objects, custom
multi-output steps, copies, aliases, tests, submodules) built by the real
backend with the hashing stub toolchain.  History = edits of single files
(sources and intermediates) interleaved with builds of varying goals, null
builds, clean + rebuild, isolated goals from a clean tree (the schedule
dimension for serial make), and - in a separate configuration - step failures
followed by a rebuild.  Oracles: sufficiency (bytes equal a from-scratch
build), exactness band (must-rebuild subset of executed subset of
may-rebuild), null build, single producer, isolated goals succeed, default /
tests / alias membership."""

import hashlib
import os
import random
import re
import shutil

from . import bfgrun as R
from . import gen as G
from . import sim as S
from . import world as W
from .sim import Violation
from .world import HarnessError

PROP = 'C03'

BOOKKEEPING = re.compile(
    r'(^|/)(\.bfg_[a-z_]+|Makefile|Makefile\.stamp|build\.ninja|'
    r'compile_commands\.json|\.ninja_[a-z_.]+|\.dir)$|\.d$|\.stamp$')


def is_product(rel):
    return not BOOKKEEPING.search(rel)


class Graph:
    """Dependency relation observed from step logs."""

    def __init__(self):
        self.steps = {}       # key -> {'writes': set, 'reads': set, 'tool'}
        self.producer = {}    # file -> key

    @staticmethod
    def key_of(rec):
        outs = sorted(w for w in rec['writes'] if not w.endswith('.d'))
        return '|'.join(outs)

    def add(self, rec):
        if rec['rc'] != 0 or not rec['writes']:
            return None
        k = self.key_of(rec)
        st = self.steps.setdefault(k, {'writes': set(), 'reads': set(),
                                       'tool': rec['tool']})
        st['writes'] |= {w for w in rec['writes'] if not w.endswith('.d')}
        st['reads'] |= set(rec['reads'])
        for w in st['writes']:
            self.producer[w] = k
        return k

    def resolve(self, f):
        """Follow symlink-style aliases: a read of build/libx.so may be a
        symlink to a produced file; reads are logged by the name used."""
        return f

    def closure_of_files(self, files, extra_edges=None):
        """All steps needed to produce `files` (transitively through reads
        and, when given, through extra declared edges step->files)."""
        need, stack = set(), list(files)
        seen = set()
        while stack:
            f = stack.pop()
            if f in seen:
                continue
            seen.add(f)
            k = self.producer.get(f)
            if k is None or k in need:
                continue
            need.add(k)
            stack.extend(self.steps[k]['reads'])
            if extra_edges:
                stack.extend(extra_edges.get(k, ()))
        return need

    def downstream_of(self, f, extra_edges=None):
        """Steps that (transitively) consume file f."""
        out = set()
        frontier = {f}
        while frontier:
            nxt = set()
            for k, st in self.steps.items():
                if k in out:
                    continue
                ins = st['reads'] | set((extra_edges or {}).get(k, ()))
                if ins & frontier:
                    out.add(k)
                    nxt |= st['writes']
            frontier = nxt
        return out


def executed(result):
    """Keys of the steps a backend run executed successfully."""
    return [Graph.key_of(s) for s in result.steps
            if s['rc'] == 0 and s['writes']]


class C03Case:
    def __init__(self, root, proj, cfg):
        self.root = root
        self.proj = proj
        self.cfg = cfg
        self.w = W.World(root)
        R.install_stubs(self.w, config=cfg)
        proj.materialise(self.w)
        self.sim = S.Sim(self.w, proj, cfg)
        self.graph = Graph()
        self.violations = []
        self.trace = []
        self.stats = {}
        self.declared = {}      # step key -> files declared but not read
        self.must_edges = {}
        self.always = set()     # keys of always-outdated steps
        self.pending_must = set()   # steps that have to re-run when asked
        self.pending_may = set()    # steps that may re-run when asked

    def count(self, k, n=1):
        self.stats[k] = self.stats.get(k, 0) + n

    def vio(self, oracle, detail, feats=()):
        f = {'backend=' + self.proj.backend} | set(feats)
        self.violations.append(Violation(PROP, oracle, detail, f,
                                         len(self.trace)))

    # -- running ------------------------------------------------------------
    def build(self, goals=(), expect_ok=True, label='build'):
        src_before = self.w.snapshot('src')
        r = self.sim.backend_run(list(goals))
        for s in r.steps:
            self.graph.add(s)
        self.trace.append([label, list(goals), r.status, sorted(executed(r)),
                           [i.get('outcome') for i in r.inv]])
        self.count('builds')
        self.count('steps_executed', len(r.steps))
        self.check_single_producer(r, goals)
        for out, inp in getattr(r, 'races', []):
            self.vio('schedule-race', 'step {} read {} which another step '
                     'wrote while it was in flight (missing dependency '
                     'edge)'.format(out, inp), {'jobs>1'})
        for out, inp in getattr(r, 'missing_at_start', []):
            self.vio('schedule-race', 'step {} started before its input {} '
                     'existed'.format(out, inp), {'jobs>1'})
        if self.w.snapshot('src') != src_before:
            self.vio('containment', 'building {} changed the source tree'
                     .format(list(goals)), {'op=build'})
        if expect_ok and not r.ok:
            self.vio('every-goal-builds',
                     'build of {} failed:\n{}'.format(list(goals) or 'all',
                                                      r.output[-1200:]),
                     {'goal=' + ('all' if not goals else 'single')})
        return r

    def check_single_producer(self, r, goals):
        seen = {}
        for s in r.steps:
            if s['rc'] != 0:
                continue
            k = Graph.key_of(s)
            for wpath in s['writes']:
                if wpath.endswith('.d'):
                    continue
                if wpath in seen and seen[wpath] != k:
                    self.vio('single-producer',
                             '{} written by two steps in one build: {} and '
                             '{}'.format(wpath, seen[wpath], k))
                seen[wpath] = k
        if re.search(r'warning: (overriding|ignoring old) recipe', r.output):
            self.vio('single-producer', 'make reports conflicting recipes: ' +
                     re.search(r'.*warning: (overriding|ignoring old) '
                               r'recipe.*', r.output).group(0))

    # -- model glue -------------------------------------------------------------
    def outputs_named(self, var):
        """Produced files that belong to the script variable `var`."""
        st = next((s for s in self.proj.stmts() if s.var == var), None)
        if st is None:
            return set()
        name = st.facts.get('name')
        if name is None:
            return set()
        base = os.path.basename(name)
        d = os.path.dirname(name)
        pats = [base] if st.kind == 'executable' else \
            ['lib' + base + '.so', 'lib' + base + '.a',
             'lib' + base + '.so.1', 'lib' + base + '.so.1.2.3']
        out = set()
        for f in self.graph.producer:
            if os.path.basename(f) in pats and \
               os.path.dirname(f) == os.path.join('build', d).rstrip('/'):
                out.add(f)
        return out

    def files_of_ref(self, ref):
        """Produced/source files a script-level reference stands for."""
        ref = ref.strip()
        g = self.graph
        m = re.match(r"^(gen2?)(\[(\d+)\])?$", ref)
        if m:
            st = next((s for s in self.proj.stmts('build_step')
                       if s.var == m.group(1)), None)
            if st is None:
                return set()
            outs = st.facts['outs']
            if m.group(3) is not None:
                outs = [outs[int(m.group(3))]]
            elif len(outs) > 1:
                outs = list(outs)
            return {'build/' + o for o in outs}
        if ref.startswith(("'", '"')):
            return {'src/' + ref.strip("'\"")}
        if ref == 'grp':
            # the alias: stands for its members
            out = set()
            for st in self.proj.stmts('alias'):
                if st.var == 'grp':
                    for mvar in st.facts.get('members', ()):
                        out |= self.outputs_named(mvar)
            return out
        out = self.outputs_named(ref)
        if ref == 'sublib':
            out |= {f for f in g.producer
                    if os.path.basename(f) == 'libsublib.a'}
        return out

    @staticmethod
    def list_arg(text, name):
        """Items of the list literal passed as keyword `name` (brackets may
        nest: extra_deps=[gen[0], 'data/x.txt'])."""
        i = text.find(name + '=[')
        if i < 0:
            return []
        i += len(name) + 2
        depth, cur, items = 1, '', []
        while i < len(text) and depth:
            ch = text[i]
            if ch == '[':
                depth += 1
            elif ch == ']':
                depth -= 1
                if depth == 0:
                    break
            if ch == ',' and depth == 1:
                items.append(cur)
                cur = ''
            else:
                cur += ch
            i += 1
        if cur.strip():
            items.append(cur)
        return [x.strip() for x in items if x.strip()]

    def compute_declared(self):
        """Edges the script declares although the stub tool does not read
        the file.  must: extra_deps and explicitly passed (generated)
        headers.  may: every output of every library named in libs=."""
        g = self.graph
        self.declared = {}
        self.must_edges = {}
        for st in self.proj.stmts():
            if st.kind not in ('executable', 'library', 'static_library',
                               'shared_library', 'whole_archive') or \
               not st.var:
                continue
            own = self.outputs_named(st.var)
            link_keys = {g.producer[f] for f in own if f in g.producer}
            lib_files = set()
            for lv in self.list_arg(st.text, 'libs'):
                lib_files |= self.files_of_ref(lv)
            if lib_files:
                for k in link_keys:
                    self.declared.setdefault(k, set()).update(lib_files)
            dep_files = set()
            via_alias = set()
            for dv in self.list_arg(st.text, 'extra_deps'):
                if dv.strip() == 'grp':
                    # through a phony target: whether a member that was
                    # rebuilt by an earlier (interrupted) build still makes
                    # the dependent dirty differs between Ninja versions
                    # (phony outputs take their inputs' mtime since 1.11) -
                    # declared, allowed, not required
                    via_alias |= self.files_of_ref(dv)
                else:
                    dep_files |= self.files_of_ref(dv)
            if dep_files:
                for k in link_keys:
                    self.must_edges.setdefault(k, set()).update(dep_files)
            if via_alias:
                for k in link_keys:
                    self.declared.setdefault(k, set()).update(via_alias)
            if re.search(r'includes=\[[^\]]*\bxhdr\b', st.text):
                # an explicitly passed header file of the source tree
                own = {'src/' + q for q in re.findall(
                    r"'([^']+\.c)'", st.text.split('includes=')[0])}
                if '[gen' in st.text.split('includes=')[0]:
                    own |= self.files_of_ref('gen[0]') | \
                        self.files_of_ref('gen')
                for k in link_keys:
                    for f in g.steps[k]['reads']:
                        ok = g.producer.get(f)
                        if ok and f.endswith('.o') and \
                           g.steps[ok]['reads'] & own:
                            self.must_edges.setdefault(ok, set()).add(
                                'src/extra_hdr/explicit.h')
            if 'gen[1]' in st.text and 'includes=' in st.text:
                # an explicitly passed generated header: every object of
                # this target depends on it, included or not
                hdr = self.files_of_ref('gen[1]')
                own = {'src/' + q for q in re.findall(
                    r"'([^']+\.c)'", st.text.split('includes=')[0])}
                own |= self.files_of_ref('gen[0]')
                for k in link_keys:
                    for f in g.steps[k]['reads']:
                        ok = g.producer.get(f)
                        # only the objects this target compiles itself get
                        # its includes (shared object_files have their own)
                        if ok and f.endswith('.o') and \
                           g.steps[ok]['reads'] & own:
                            self.must_edges.setdefault(ok, set()).update(hdr)
        for st in self.proj.stmts('copy_file'):
            deps = set()
            for dv in self.list_arg(st.text, 'extra_deps'):
                deps |= self.files_of_ref(dv)
            m = re.search(r"file='([^']+)'", st.text)
            if deps and m:
                out = 'build/' + m.group(1)
                k = g.producer.get(out)
                if k:
                    self.must_edges.setdefault(k, set()).update(deps)
        # the submodule's static library names the nested submodule's
        # library in libs=: ar never reads it, the script declares it
        inner = {f for f in g.producer
                 if os.path.basename(f) == 'libinnerlib.a'}
        if inner:
            for f, k in g.producer.items():
                if os.path.basename(f) == 'libsublib.a':
                    self.declared.setdefault(k, set()).update(inner)
        for k, fs in self.must_edges.items():
            self.declared.setdefault(k, set()).update(fs)
        self.always = set()
        for st in self.proj.stmts('build_step'):
            if 'always_outdated=True' in st.text:
                for o in st.facts['outs']:
                    k = self.graph.producer.get('build/' + o)
                    if k:
                        self.always.add(k)

    def always_closure(self, within=None):
        out = set(self.always)
        for k in self.always:
            for f in self.graph.steps[k]['writes']:
                out |= self.graph.downstream_of(f, self.declared)
        return out if within is None else out & within

    # -- oracles ----------------------------------------------------------------
    def note_edit(self, edited):
        self.pending_must |= self.graph.downstream_of(edited,
                                                      self.must_edges)
        self.pending_may |= self.graph.downstream_of(edited, self.declared)
        k = self.graph.producer.get(edited)
        if k is not None:
            # Ninja re-runs an edge whose output is newer than its deps-log
            # record (a hand-modified object): allowed, not required; and
            # whatever consumes its other outputs may follow
            self.pending_may.add(k)
            # ... and a hand-modified output is newer than its inputs, so an
            # mtime-based tool can no longer know that it was out of date
            self.pending_must.discard(k)
            for f in self.graph.steps[k]['writes']:
                self.pending_may |= self.graph.downstream_of(f,
                                                             self.declared)

    def note_ran(self, r):
        ran = set(executed(r))
        self.pending_must -= ran
        self.pending_may -= ran
        return ran

    def check_band(self, r, edited, goal_files, label):
        g = self.graph
        clo_may = g.closure_of_files(goal_files, self.declared)
        clo_must = g.closure_of_files(goal_files, self.must_edges)
        must = self.pending_must & clo_must
        # a symlink / hard link made by copy_file() *is* its source: an
        # in-place edit of the source needs no new link (and both tools see
        # equal mtimes); re-making it is allowed, not required
        must = {k for k in must if g.steps[k]['tool'] != 'ln'}
        may = (self.pending_may & clo_may) | self.always_closure(clo_may)
        must |= self.always & clo_must
        ran = self.note_ran(r)
        # whatever was really needed for the goal is now up to date; steps
        # that are only *declared* relatives of the goal (another variant of
        # a dual library...) may not have been built and stay pending
        self.pending_must -= clo_must
        self.pending_may -= clo_must
        missing = must - ran
        spurious = ran - may
        # steps that the two known findings keep dirty for ever (link-mode
        # copies with extra_deps; under Make, whatever names an alias as a
        # dependency) are reported by the null-build oracle, with their
        # cause; here they are not "spurious" a second time
        users = {'build/' + n for n in
                 (self.proj.model or {}).get('alias_users', ())}
        spurious = {k for k in spurious
                    if not (g.steps[k]['tool'] == 'ln' and
                            self.must_edges.get(k)) and
                    not (self.sim.backend == 'make' and
                         g.steps[k]['writes'] & users)}
        if missing:
            self.vio('exactness-stale',
                     'after modifying {} the build of {} did not re-run {}'
                     .format(edited, label, sorted(missing)[:4]),
                     {'edit=' + ('source' if edited.startswith('src/')
                                 else 'intermediate')})
        elif spurious:
            self.vio('exactness-spurious',
                     'after modifying {} the build of {} re-ran {} which do '
                     'not depend on it'.format(edited, label,
                                               sorted(spurious)[:4]),
                     {'edit=' + ('source' if edited.startswith('src/')
                                 else 'intermediate')})
        else:
            self.count('band_checks')
            if ran:
                self.count('band_checks_nonempty')

    def null_build(self, goals, goal_files):
        r = self.build(goals, label='null')
        ran = set(executed(r))
        allowed = self.always_closure(
            self.graph.closure_of_files(goal_files, self.declared))
        if ran - allowed or r.inv:
            feats = set()
            extra = ran - allowed
            users = {'build/' + n for n in
                     (self.proj.model or {}).get('alias_users', ())}
            if extra and not r.inv and users and \
               self.sim.backend == 'make' and all(
                   self.graph.steps[k]['writes'] & users for k in extra):
                # Make: a .PHONY prerequisite (the alias) is always out of
                # date, and so is whatever names it as a dependency
                feats.add('phony-alias-prerequisite')
            if extra and not r.inv and all(
                    self.graph.steps[k]['tool'] == 'ln' and
                    self.must_edges.get(k) for k in extra):
                # symlink/hardlink copies that declare extra_deps: the link
                # has its source's mtime, any newer extra dep keeps it dirty
                feats.add('link-copy-with-extra-deps')
            self.vio('null-build',
                     'a build of {} right after a build re-ran {} and '
                     'launched bfg9000 {} times'.format(
                         list(goals) or 'all', sorted(ran - allowed)[:4],
                         len(r.inv)), feats)
        else:
            self.count('null_builds')
        return r

    def products(self):
        snap = self.w.snapshot('build')
        return {k: v for k, v in snap.items()
                if v[0] != 'd' and is_product(k)}

    def scratch_products(self, goals):
        """Products of a from-scratch configure + build of the current
        sources (same path, real build dir moved aside)."""
        w = self.w
        aside = w.build + '.real'
        os.rename(w.build, aside)
        os.mkdir(w.build)
        n_inv = w.log_len('invocations')
        n_steps = w.log_len('steps')
        try:
            r = self.sim.configure()
            if not r.ok:
                raise HarnessError('scratch configure failed: ' +
                                   r.output[-1000:])
            r = self.sim.backend_run(list(goals))
            if not r.ok:
                raise HarnessError('scratch build failed: ' +
                                   r.output[-1000:])
            return self.products()
        finally:
            shutil.rmtree(w.build, ignore_errors=True)
            os.rename(aside, w.build)
            self.sim._truncate_log('invocations', n_inv)
            self.sim._truncate_log('steps', n_steps)

    def check_sufficiency(self, goals, label):
        mine = self.products()
        ref = self.scratch_products(goals)
        bad = sorted(k for k in ref if mine.get(k) != ref[k])
        if bad:
            self.vio('sufficiency',
                     'after {} the products {} differ from a from-scratch '
                     'build of the same sources'.format(label, bad[:5]))
        else:
            self.count('sufficiency_checks')


def goal_name(f):
    assert f.startswith('build/')
    return f[len('build/'):]


class Runner:
    """Executes concrete C03 operations; expectations are derived at run
    time from the graph observed so far, so a recorded op list replays (and
    shrinks) without the generator."""

    def __init__(self, c):
        self.c = c
        self.all_ran = None
        self.default_files = set()
        self.everything = []
        self.touched_intermediate = False
        self.built = set()      # goal tuples built since the last edit

    def goal_files(self, goals):
        if not goals:
            return set(self.default_files)
        c = self.c
        model = c.proj.model or {}
        files = set()
        for x in goals:
            files.add('build/' + x)
            # phony goals stand for their declared members
            if x == 'tests':
                for t in model.get('tests', ()):
                    files |= c.outputs_named(t)
                files |= {'build/' + f
                          for f in model.get('test_deps_files', ())}
            for m in (model.get('aliases') or {}).get(x, ()):
                files |= c.outputs_named(m)
        return files

    def model_goals(self):
        c, proj = self.c, self.c.proj
        extra = [st.facts['name'] for st in proj.stmts('alias')]
        if proj.model['tests']:
            extra.append('tests')
        exes = [st.facts['name'] for st in proj.stmts('executable')]
        # copies are nobody's dependency and not in the default set: they
        # are only reachable by name
        for st in proj.stmts('copy_file'):
            m = re.search(r"file='([^']+)'", st.text)
            if m:
                exes.append(m.group(1))
        for st in proj.stmts('copy_files'):
            for f in re.findall(r"'(data/[^']+)'", st.text):
                exes.append(f)
        return extra, exes

    def op(self, op):
        c, w, g = self.c, self.c.w, self.c.graph
        k = op[0]
        if k == 'configure':
            r = c.sim.configure()
            if not r.ok:
                raise HarnessError('configure failed:\n' + r.output[-3000:])
        elif k == 'all':
            r = c.build([], label='all')
            self.built.add(())
            self.all_ran = set(executed(r))
            for key in self.all_ran:
                self.default_files |= g.steps[key]['writes']
        elif k == 'complete':
            extra, exes = self.model_goals()
            c.build(extra + exes, label='complete')
            if c.violations:
                return
            libs = []
            mk = w.read_build(c.sim.buildfile) or ''
            for st in c.proj.stmts():
                if st.kind in ('library', 'static_library',
                               'shared_library') and st.facts.get('name'):
                    n = st.facts['name']
                    for cand in ('lib{}.so'.format(n), 'lib{}.a'.format(n)):
                        if re.search(r'^(build )?{}[: ]'.format(
                                re.escape(cand)), mk, re.M):
                            libs.append(cand)
            if libs:
                c.build(libs, label='complete-libs')
            c.compute_declared()
            self.everything = extra + exes + libs
            c.everything_goals = self.everything
        elif k == 'membership':
            if self.all_ran is not None:
                check_default_membership(c, self.all_ran, None)
        elif k == 'null':
            key = tuple(op[1])
            if key not in self.built:
                # (a shrunk history may have lost the preceding build)
                c.build(op[1], label='build')
                self.built.add(key)
            else:
                c.null_build(op[1], self.goal_files(op[1]))
        elif k == 'null-everything':
            files = self.goal_files(self.everything) | self.default_files
            key = tuple(self.everything)
            if key not in self.built:
                c.build(self.everything, label='build')
                self.built.add(key)
            c.null_build(self.everything, files)
        elif k == 'edit':
            f = op[1]
            p = os.path.join(w.root, f)
            if not os.path.isfile(p) or os.path.islink(p):
                return
            with open(p, 'a') as fh:
                fh.write('/* edit */\n')
            W.stamp(p, w.next_tick())
            if f in g.producer:
                self.touched_intermediate = True
            c.trace.append(['edit', f])
            c.note_edit(f)
            self.built.clear()
        elif k == 'build-check':
            goals = op[1]
            self.built.add(tuple(goals))
            r = c.build(goals, label='build')
            if c.violations:
                return
            c.check_band(r, op[2], self.goal_files(goals),
                         ','.join(goals) or 'all')
        elif k == 'fault-build-check':
            goals, n = op[1], op[3]
            with open(os.path.join(w.log, 'stepno'), 'w') as fh:
                fh.write('0')
            with open(os.path.join(w.log, 'stepfault'), 'w') as fh:
                fh.write(str(n))
            rf = c.build(goals, expect_ok=False, label='faulted')
            os.remove(os.path.join(w.log, 'stepfault'))
            if not rf.ok:
                c.count('fired.step_failure')
            r2 = c.build(goals, label='rebuild-after-failure')
            self.built.add(tuple(goals))
            if c.violations:
                return

            class Both:
                steps = rf.steps + r2.steps
            c.check_band(Both, op[2], self.goal_files(goals),
                         ','.join(goals) or 'all')
        elif k == 'everything':
            r = c.build(self.everything, label='everything')
            c.note_ran(r)
            c.pending_must.clear()
            c.pending_may.clear()
        elif k == 'sufficiency':
            if not self.touched_intermediate:
                c.check_sufficiency(self.everything, 'a history of edits '
                                    'and goal builds')
        elif k == 'clean-rebuild':
            rc = c.sim.backend_run(['clean'])
            c.trace.append(['clean', rc.status])
            if not rc.ok:
                c.vio('every-goal-builds', 'clean failed:\n' +
                      rc.output[-600:])
                return
            r3 = c.build([], label='all-after-clean')
            if c.violations or self.all_ran is None:
                return
            if set(executed(r3)) != self.all_ran:
                c.vio('clean-rebuild', 'after clean, `all` ran {} but the '
                      'first build ran {}'.format(
                          sorted(set(executed(r3)) ^ self.all_ran)[:5],
                          len(self.all_ran)))
        elif k == 'install':
            # `install` depends on exactly the default set: from an empty
            # build dir it builds what `all` builds, then copies the members
            if not c.proj.model.get('installed') or self.all_ran is None:
                return
            reset_build_dir(c)
            # every world is configured with --prefix=<world>/prefix
            stage = os.path.join(w.root, 'prefix')
            shutil.rmtree(stage, ignore_errors=True)
            src_before = w.snapshot('src')
            r = c.sim.backend_run(['install'])
            for s_ in r.steps:
                g.add(s_)
            c.trace.append(['install', r.status, sorted(executed(r))])
            if not r.ok:
                c.vio('every-goal-builds', 'install from a clean tree '
                      'fails:\n' + r.output[-900:], {'goal=install'})
                return
            if w.snapshot('src') != src_before:
                c.vio('containment', 'install changed the source tree',
                      {'op=install'})
                return
            ran = {k_ for k_ in executed(r) if k_ in g.steps and
                   any(x.startswith('build/') for x in g.steps[k_]['writes'])}
            ran = {k_ for k_ in ran if not k_.startswith('stage/')}
            if ran != self.all_ran:
                c.vio('install-membership', 'install from a clean tree ran '
                      '{} but `all` ran {}'.format(
                          sorted(ran ^ self.all_ran)[:5], len(self.all_ran)))
                return
            staged = {os.path.basename(p_) for b_, _, fs in os.walk(stage)
                      for p_ in fs}
            for m_ in c.proj.model['installed']:
                want = {os.path.basename(f) for f in c.outputs_named(m_)}
                if m_ == 'man':
                    want = {'tool.1'}
                if want and not (want & staged):
                    c.vio('install-membership', 'install did not place {} '
                          '(member {}) under DESTDIR; staged: {}'.format(
                              sorted(want), m_, sorted(staged)))
                    return
            c.count('install_checks')
            reset_build_dir(c)
            c.build([], label='all-rebuilt')
            c.build(self.everything, label='complete-rebuilt')
        elif k == 'isolated':
            f = op[1]
            if f not in g.producer:
                return
            reset_build_dir(c)
            r4 = c.build([goal_name(f)], label='isolated')
            if c.violations:
                c.violations[-1].features.append('isolated-goal')
                return
            ran = set(executed(r4))
            must = g.closure_of_files({f}, c.must_edges)
            may = g.closure_of_files({f}, c.declared) | \
                c.always_closure(g.closure_of_files({f}, c.declared))
            if must - ran:
                c.vio('isolated-goal', 'building only {} from a clean tree '
                      'did not run {}'.format(goal_name(f),
                                              sorted(must - ran)[:4]))
            elif ran - may:
                c.vio('isolated-goal', 'building only {} from a clean tree '
                      'also ran {}'.format(goal_name(f),
                                           sorted(ran - may)[:4]))
            else:
                c.count('isolated_goals')
        else:
            raise HarnessError('unknown op {}'.format(op))


def execute(root, proj, cfg, ops, online=None):
    c = C03Case(root, proj, cfg)
    run = Runner(c)
    try:
        if online is not None:
            online(run, ops)
        else:
            for op in ops:
                run.op(op)
                if c.violations:
                    break
    finally:
        if not os.environ.get('BFGSIM_KEEP'):
            c.w.destroy()
    return c


SWARM_FEATURES = [
    'alias', 'alias_as_dep', 'always_outdated', 'build_step', 'chained_step',
    'command', 'copy_extra_deps', 'copy_file', 'copy_files', 'default',
    'explicit_header', 'extra_deps', 'gen_header', 'global_options',
    'install', 'lib_extra_deps', 'man_page', 'nested_submodule',
    'no_intermediate_dirs', 'object_files', 'pch', 'pkg_config',
    'pkg_config_explicit', 'static_mode', 'submodule', 'test', 'test_deps',
    'test_driver', 'test_wrapper', 'versioned', 'whole_archive']
SWARM_PARENTS = {
    'chained_step': {'build_step'}, 'gen_header': {'build_step'},
    'always_outdated': {'build_step'}, 'test_deps': {'build_step', 'test'},
    'alias_as_dep': {'alias'}, 'test_driver': {'test'},
    'test_wrapper': {'test'}, 'copy_extra_deps': {'copy_file'},
    'pkg_config': {'install'}, 'pkg_config_explicit': {'pkg_config',
                                                       'install'},
    'nested_submodule': {'submodule'},
}


def run_case(seed, root, params=None):
    params = params or {}
    rng = random.Random(seed)
    backend = rng.choice(params.get('backends', ['make', 'ninja']))
    cfg = {'clock_mode': rng.choice(['strict', 'coarse']), 'bufsize': 4096,
           'seed': seed, 'jobs': rng.choice([1, 2, 4, 8])}
    fault_mode = bool(params.get('fault_mode')) and rng.random() < 0.5
    # swarm: half of the cases enable every ingredient with its own small
    # probability (large, mixed projects), the other half draw a handful of
    # ingredients and enable only those (small, focused projects - more of
    # them per second, and conjunctions of two ingredients become likely)
    allow = None
    if rng.random() < 0.5:
        allow = set(rng.sample(SWARM_FEATURES, rng.randint(3, 8)))
        for feat, parents in SWARM_PARENTS.items():
            if feat in allow:
                allow |= parents
    proj = G.GraphGen(rng, backend, allow=allow).generate()
    if allow is not None:
        proj.features.add('swarm_subset')
    ops = []

    def online(run, ops):
        c, g = run.c, run.c.graph

        def do(op):
            ops.append(op)
            run.op(op)
            return bool(c.violations)

        # the membership checks rebuild from an empty build directory several
        # times: they are the most expensive part and run in part of the
        # cases only, so that the edit/build histories get more cases
        prefix = [['configure'], ['all'], ['complete']]
        if rng.random() < 0.4:
            prefix.append(['membership'])
        prefix.append(['null', []])
        if rng.random() < 0.5:
            prefix.append(['null-everything'])
        for op in prefix:
            if do(op):
                return
        sources = sorted({f for st in g.steps.values() for f in st['reads']
                          if f.startswith('src/')} |
                         {f for fs in c.must_edges.values() for f in fs
                          if f.startswith('src/')})
        inter = sorted({f for st in g.steps.values() for f in st['reads']
                        if f in g.producer})
        all_files = sorted(g.producer)
        # inputs of custom (non-compiler) steps: multi-output steps, stamp
        # files and always-outdated steps hang off these
        custom_inputs = sorted(
            {f for st in g.steps.values() if st['tool'] == 'simtool'
             for f in st['reads'] if f.startswith('src/')} |
            # the precompiled header's source, declared extra_deps, the
            # header directory's files: edges no compiler depfile carries
            {f for k, st in g.steps.items()
             if any(w.endswith('.gch') for w in st['writes'])
             for f in st['reads'] if f.startswith('src/')} |
            {f for fs in c.must_edges.values() for f in fs
             if f.startswith('src/')})
        for i in range(rng.randint(2, params.get('max_edits', 5))):
            x = rng.random()
            if custom_inputs and x < 0.3:
                f = rng.choice(custom_inputs)
            elif x < 0.8 or not inter:
                f = rng.choice(sources)
            else:
                f = rng.choice(inter)
            if do(['edit', f]):
                return
            goals = [goal_name(rng.choice(all_files))] \
                if rng.random() < 0.5 else []
            if fault_mode and rng.random() < 0.6:
                # the first step executed after an edit is its direct
                # consumer: bias the failure onto it
                op = ['fault-build-check', goals, f,
                      1 if rng.random() < 0.6 else rng.randint(2, 4)]
            else:
                op = ['build-check', goals, f]
            if do(op) or do(['null', goals]):
                return
        for op in (['everything'], ['sufficiency'], ['clean-rebuild'],
                   ['install']):
            if do(op):
                return
        for _ in range(params.get('isolated', 2)):
            if do(['isolated', rng.choice(all_files)]):
                return

    c = execute(root, proj, cfg, ops, online)
    out = finish(c)
    out['ops'] = ops
    out['fault_mode'] = fault_mode
    return out


def reset_build_dir(c):
    """Empty build dir + configure again (a clean tree for goal isolation)."""
    w = c.w
    shutil.rmtree(w.build)
    os.mkdir(w.build)
    W.stamp(w.build, w.next_tick())
    r = c.sim.configure()
    if not r.ok:
        raise HarnessError('re-configure failed: ' + r.output[-1000:])


def check_default_membership(c, all_ran, rng):
    """`all` builds exactly the closure of the default set."""
    proj, g, model = c.proj, c.graph, c.proj.model
    members = set()
    if model['default']:
        members |= set(model['default'])
    if model['installed']:
        members |= {m for m in model['installed'] if m != 'man'}
    if not members:
        tests = set(model['tests'])
        for st in proj.stmts():
            if st.kind in ('executable', 'library', 'static_library',
                           'shared_library') and st.var not in tests and \
               st.var:
                members.add(st.var)
        explicit = False
    else:
        explicit = True
    built_files = set()
    for k in all_ran:
        built_files |= g.steps[k]['writes']
    # executables a member needs (it names an alias of them as a dependency)
    needed = set()
    users = {'exe_' + n for n in model.get('alias_users', ())}
    if users & members:
        for st in proj.stmts('alias'):
            if st.var == 'grp':
                needed |= set(st.facts.get('members', ()))
    for st in proj.stmts('executable'):
        outs = c.outputs_named(st.var)
        is_member = st.var in members
        built = bool(outs & built_files)
        if not is_member and st.var in needed:
            continue
        if is_member and not built:
            c.vio('default-membership', '`all` did not build {} which is in '
                  'the default set'.format(st.facts['name']),
                  {'explicit' if explicit else 'implicit'})
            return
        if not is_member and built:
            c.vio('default-membership', '`all` built {} which is not in the '
                  'default set ({})'.format(
                      st.facts['name'], 'explicit default()/install()'
                      if explicit else 'it is handed to test()'),
                  {'explicit' if explicit else 'implicit'})
            return
    c.count('membership_checks')
    # tests / aliases: declared members are built by those goals
    if model['tests'] or model['aliases']:
        reset_build_dir(c)
        if model['tests']:
            r = c.build(['tests'], label='tests-from-clean')
            if c.violations:
                return
            ran_files = set()
            for k in executed(r):
                ran_files |= g.steps[k]['writes']
            want = set()
            for t in model['tests']:
                want |= c.outputs_named(t)
            for f in model.get('test_deps_files', []):
                want.add('build/' + f)
            may = set()
            for k in g.closure_of_files(want, c.declared):
                may |= g.steps[k]['writes']
            if not want <= ran_files or ran_files - may:
                c.vio('tests-membership', '`tests` built {} but its declared '
                      'members are {}'.format(sorted(ran_files)[:6],
                                              sorted(want)))
                return
        for an, mem in model['aliases'].items():
            reset_build_dir(c)
            r = c.build([an], label='alias-from-clean')
            if c.violations:
                return
            ran_files = set()
            for k in executed(r):
                ran_files |= g.steps[k]['writes']
            want = set()
            for m in mem:
                want |= c.outputs_named(m)
            may = set()
            for k in g.closure_of_files(want, c.declared):
                may |= g.steps[k]['writes']
            if not want <= ran_files or ran_files - may:
                c.vio('alias-membership', 'alias {} built {} but its '
                      'declared members are {}'.format(
                          an, sorted(ran_files - may)[:4] or
                          sorted(want - ran_files)[:4], sorted(want)))
                return
        # back to a fully built tree for the rest of the history
        reset_build_dir(c)
        c.build([], label='all-rebuilt')
        c.build(c.everything_goals, label='complete-rebuilt')
        c.count('group_membership_checks')


def finish(c):
    return {'proj': c.proj, 'cfg': c.cfg, 'violations': c.violations,
            'trace': c.trace, 'stats': c.stats,
            'n_steps': len(c.graph.steps),
            'schedules': sorted(getattr(c.sim, 'schedules', []))}


PARAMS = {
    'quick': {'budget': 75, 'max_edits': 4, 'isolated': 2,
              'fault_mode': True},
    'thorough': {'budget': 900, 'max_edits': 7, 'isolated': 4,
                 'fault_mode': True},
}

EVIDENCE = {
    'level': 'exploration',
    'rule': ('one case = one generated multi-step project (seeded) + a '
             'history: default build, completion of the graph, null build, '
             'single-file modifications of sources and intermediates each '
             'followed by a build of `all` or of one random output and a '
             'null build, clean + rebuild, isolated goals from an empty '
             'build dir, tests/alias goals from an empty build dir; 40% of '
             'the cases in fault mode inject clean step failures followed '
             'by a rebuild; distinct = distinct (project feature set, '
             'number of steps, sequence of operation kinds); non-trivial = '
             'at least one edit re-ran at least one step'),
    'real': ['bfg9000 from /repo working tree', 'GNU make 4.3', '/bin/sh',
             'bfg9000-depfixer'],
    'stubs': ['cc/c++/ar/simtool: outputs are hashes of argv + every input '
              'read; missing inputs fail hard', 'clock (logical mtimes)',
              'touch (tick-stamping)'],
    'assumptions': [
        'serial GNU make: step orders are varied by goal isolation, not by '
        'uncontrolled -j',
        'file names use [A-Za-z0-9_.-] only (special characters are C04)',
        'the observed reads of the stub tools define what a step consumes; '
        'script-declared library references widen the upper band only',
    ],
}


def summarise(case):
    proj = case['proj']
    kinds = [t[0] for t in case['trace']]
    shape = '|'.join([proj.backend, ','.join(sorted(proj.features)),
                      str(case['n_steps']), ','.join(kinds)])
    rep = None
    if case['violations']:
        rep = {'property': PROP, 'seed': case['seed'], 'ops': case['ops'],
               'project': proj.to_json(), 'cfg': case['cfg']}
    st = case['stats']
    return {
        'seed': case['seed'],
        'violations': [v.to_json() for v in case['violations']],
        'stats': dict(st, **{'backend.' + proj.backend: 1}),
        'nontrivial': st.get('band_checks_nonempty', 0) > 0,
        'shape': hashlib.sha256(shape.encode()).hexdigest()[:16],
        'digest': hashlib.sha256(repr(case['trace']).encode())
        .hexdigest()[:16],
        'sample': {'seed': case['seed'], 'features': sorted(proj.features),
                   'steps': case['n_steps'],
                   'script': proj.script_text('build.bfg').split('\n'),
                   'history': [t[:3] for t in case['trace']][:40]},
        'sets': {'schedules': case.get('schedules', [])},
        'replay': rep,
        'wall': case.get('wall'),
    }


def replay(rep, root):
    proj = G.Project.from_json(rep['project'])
    c = execute(root, proj, rep['cfg'], rep['ops'])
    return [v.to_json() for v in c.violations]


def minimise(rep, v, root, deadline):
    from .minimise import minimise_replay

    def run(r):
        try:
            return replay(r, root)
        except HarnessError:
            return []
    # the set-up operations establish the graph every later expectation is
    # derived from: they are never dropped
    return minimise_replay(rep, v, run, deadline, max_runs=40,
                           keep=lambda op: op[0] in ('configure', 'all',
                                                     'complete'))
