"""C13 - build files are a deterministic function of project and
configuration.

For one generated project, the same configuration is produced K times in fresh
interpreters that differ only in what the property says must not matter: hash
seed, unrelated environment variables, pid, (logical) time, the directory
bfg9000 is invoked from, the invocation form and the spelling of the
directories.  Primary files must be byte-identical; auxiliary files equal as
sets of entries."""

import hashlib
import json
import os
import random
import shutil

from . import bfgrun as R
from . import gen as G
from . import sim as S
from . import world as W
from .sim import Violation
from .world import HarnessError

PROP = 'C13'

AMBIENT_NOISE = {
    'TERM': ['dumb', 'xterm-256color', 'screen', ''],
    'NO_COLOR': ['1', ''], 'COLORTERM': ['truecolor'],
    'CLICOLOR': ['0', '1'], 'CLICOLOR_FORCE': ['1'],
    'COLUMNS': ['40', '200'], 'LINES': ['24'],
    'USER': ['alice', 'root'], 'LOGNAME': ['alice'], 'SHELL': ['/bin/zsh'],
    'TZ': ['UTC', 'Asia/Tokyo'], 'EDITOR': ['vi'], 'PAGER': ['less'],
    'CI': ['true'], 'SHLVL': ['3'], 'OLDPWD': ['/tmp'], 'PWD': ['/'],
    'DISPLAY': [':0'], 'XDG_RUNTIME_DIR': ['/run/user/1000'],
    'SSH_TTY': ['/dev/pts/3'], 'HOSTNAME': ['buildbox'],
    'PYTHONUNBUFFERED': ['1'], 'PYTHONWARNINGS': ['ignore'],
}

FORMS = ['src:abs', 'src:rel', 'build:abs', 'build:rel', 'root:into-rel',
         'root:into-abs', 'root:into-dotslash', 'src:9k', 'elsewhere:into']


def variant_command(form, w, proj):
    """-> (prog, args, cwd) for one invocation form."""
    extra = ['--backend=' + proj.backend, '--no-resolve-packages']
    if proj.toolchain:
        extra.append('--toolchain=' + os.path.join(w.src, proj.toolchain))
    extra += list(proj.conf_args)
    if not any(a.startswith('--prefix') for a in proj.conf_args):
        extra.append('--prefix=' + os.path.join(w.root, 'prefix'))
    prog = os.path.join(w.bin, 'bfg9000')
    if form == 'src:abs':
        return prog, ['configure', w.build] + extra, w.src
    if form == 'src:rel':
        return prog, ['configure', '../build'] + extra, w.src
    if form == 'build:abs':
        return prog, ['configure', w.src] + extra, w.build
    if form == 'build:rel':
        return prog, ['configure', '../src/'] + extra, w.build
    if form == 'root:into-rel':
        return prog, ['configure-into', 'src', 'build'] + extra, w.root
    if form == 'root:into-abs':
        return prog, ['configure-into', w.src, w.build] + extra, w.root
    if form == 'root:into-dotslash':
        return '../w{}/bin/bfg9000'.format(os.path.basename(w.root)[1:]), \
            ['configure-into', './src/', './build/'] + extra, w.root
    if form == 'src:9k':
        return os.path.join(w.bin, '9k'), ['../build/'] + extra, w.src
    if form == 'elsewhere:into':
        other = os.path.join(w.root, 'home')
        return prog, ['configure-into', '../src', '../build'] + extra, other
    raise HarnessError(form)


def parse_aux(build):
    """Auxiliary files as order-independent values."""
    out = {}
    p = os.path.join(build, '.bfg_find_deps')
    if os.path.exists(p):
        with open(p) as f:
            t = S.parse_find_deps(f.read())
        out['.bfg_find_deps'] = [t[0], sorted(t[1])]
    p = os.path.join(build, '.bfg_find_cache')
    if os.path.exists(p):
        with open(p) as f:
            d = json.load(f)
        canon = lambda x: json.dumps(x, sort_keys=True)
        data = d['data']
        out['.bfg_find_cache'] = {
            'version': d['version'],
            'regen_files': {k: sorted(canon(i) for i in v)
                            for k, v in data['regen_files'].items()},
            'cache': sorted(canon([e[0]] + [sorted(canon(i) for i in m)
                                            for m in e[1:]])
                            for e in data['cache']),
        }
    return out


def run_variant(w, sim, proj, variant):
    form, hashseed, noise, existing, shift = variant
    if existing == 'other':
        # the build directory was last configured with another command line
        shutil.rmtree(w.build, ignore_errors=True)
        os.mkdir(w.build)
        W.stamp(w.build, w.next_tick())
        saved = list(proj.conf_args)
        proj.conf_args = [a for a in saved if not a.startswith('--prefix')] \
            + ['--prefix=' + os.path.join(w.root, 'elsewhere'),
               '--enable-static']
        prog0, args0, cwd0 = variant_command('src:abs', w, proj)
        env0 = R.base_env(w, proj.conf_env)
        env0.pop('BFG9000', None)
        if sim.cfg.get('msvc'):
            env0.update({'CC': 'cl', 'CXX': 'cl'})
        R.run_bfg(w, args0, env=env0, cwd=cwd0, prog=prog0, mode='fork')
        proj.conf_args = saved
        w.advance(3)
    elif not existing:
        shutil.rmtree(w.build, ignore_errors=True)
        os.mkdir(w.build)
        W.stamp(w.build, w.next_tick())
    if shift:
        w.advance(shift)
    prog, args, cwd = variant_command(form, w, proj)
    env = R.base_env(w, proj.conf_env)
    env.pop('BFG9000', None)
    if sim.cfg.get('msvc'):
        env.update({'CC': 'cl', 'CXX': 'cl'})
    env.update(noise)
    r = R.run_bfg(w, args, env=env, cwd=cwd, prog=prog, mode='fresh',
                  hashseed=hashseed)
    return r


def run_case(seed, root, params=None):
    params = params or {}
    rng = random.Random(seed)
    backend = rng.choice(params.get('backends', ['make', 'ninja']))
    if rng.random() < 0.6:
        proj = G.GraphGen(rng, backend).generate()
        if rng.random() < 0.5:
            # graft discovery onto the graph project
            d = proj.scripts['build.bfg']
            d.append(G.Stmt('find', G.call('find_files', '**/*.c',
                                           extra='*.h'), 'everything'))
            d.append(G.Stmt('find', G.call('find_paths', 'include/**',
                                           type='*'), 'incs'))
            proj.features.add('find')
    else:
        proj = G.RegenGen(rng, backend).generate()
    if rng.random() < 0.15:
        # one source of one link step named by its absolute path (C13 only
        # configures: where the object of such a source goes is C05's
        # subject, its *name* must not depend on the process)
        import re
        cands = [st for st in proj.scripts['build.bfg']
                 if st.kind in ('executable', 'library', 'static_library',
                                'shared_library') and
                 re.search(r"files=\['[^']+\.c'", st.text)]
        if cands:
            st = rng.choice(cands)
            st.text = re.sub(r"files=\['([^']+\.c)'",
                             r"files=[env.srcdir.string() + '/\1'",
                             st.text, count=1)
            proj.features.add('absolute_source')
    cfg = {'clock_mode': rng.choice(['strict', 'coarse']), 'bufsize': 4096,
           'seed': seed, 'msvc': rng.random() < 0.25}
    w = W.World(root)
    R.install_stubs(w, config=cfg, msvc=cfg['msvc'])
    proj.materialise(w)
    sim = S.Sim(w, proj, cfg)
    K = params.get('K', 5)
    variants = [('src:abs', '0', {}, False, 0)]
    for i in range(K - 1):
        noise = {}
        for j in range(rng.randint(0, 3)):
            noise['BFGSIM_NOISE_{}'.format(rng.randrange(100))] = \
                rng.choice(['1', 'x y', '$HOME', '-O3', ''])
        # variables every shell/terminal/CI sets differently and that no
        # documentation ties to the generated build files
        for k, vals in AMBIENT_NOISE.items():
            if rng.random() < 0.2:
                noise[k] = rng.choice(vals)
        variants.append((
            rng.choice(FORMS),
            rng.choice(['0', '1', '2', str(rng.randrange(1, 2**31))]),
            noise, rng.choice([False, False, False, True, 'other']),
            rng.choice([0, 0, 7, 1000])))
    violations, trace, results = [], [], []
    try:
        base = None
        for vi, v in enumerate(variants):
            r = run_variant(w, sim, proj, v)
            files = sim.primary() if r.ok else None
            aux = parse_aux(w.build) if r.ok else None
            trace.append([v[0], v[1], sorted(v[2]), v[3], r.status,
                          hashlib.sha256(repr(sorted(
                              (k, v.replace(w.root, '$W'))
                              for k, v in (files or {}).items()))
                              .encode()).hexdigest()[:12]])
            if vi == 0:
                if not r.ok:
                    raise HarnessError('baseline configure failed:\n' +
                                       r.output[-3000:])
                base = (files, aux)
                continue
            feats = {'backend=' + backend, 'form=' + v[0]}
            if v[1] != '0':
                feats.add('hashseed-differs')
            if v[3]:
                feats.add('over-existing' if v[3] is True
                          else 'over-other-config')
            if not r.ok:
                violations.append(Violation(
                    PROP, 'configures',
                    'variant {} fails ({}) although the baseline invocation '
                    'of the same configuration succeeds:\n{}'.format(
                        v[:2], r.status, r.output[-600:]), feats, vi))
                break
            diff = sim.diff_files(files, base[0])
            if diff:
                import difflib
                d0 = diff[0]
                ud = list(difflib.unified_diff(
                    (base[0].get(d0) or '').splitlines(),
                    (files.get(d0) or '').splitlines(),
                    'baseline/' + d0, 'variant/' + d0, lineterm='', n=0))
                violations.append(Violation(
                    PROP, 'primary-identical',
                    '{} differ between [src:abs, PYTHONHASHSEED=0] and '
                    '[{}, PYTHONHASHSEED={}, noise={}, existing={}]:\n{}'
                    .format(diff, v[0], v[1], sorted(v[2]), v[3],
                            '\n'.join(l[:240] for l in ud[:10])),
                    feats | {'differs:' + os.path.basename(d)
                             for d in diff}, vi))
                break
            if aux != base[1]:
                bad = [k for k in set(aux) | set(base[1])
                       if aux.get(k) != base[1].get(k)]
                violations.append(Violation(
                    PROP, 'aux-equal-as-sets',
                    'auxiliary files {} differ as sets of entries'
                    .format(bad), feats | {'differs:' + b for b in bad}, vi))
                break
    finally:
        if not os.environ.get('BFGSIM_KEEP'):
            w.destroy()
    return {'proj': proj, 'cfg': cfg, 'variants': variants,
            'violations': violations, 'trace': trace, 'backend': backend}


PARAMS = {
    'quick': {'budget': 70, 'K': 4},
    'thorough': {'budget': 900, 'K': 7},
}

EVIDENCE = {
    'level': 'exploration',
    'rule': ('one case = one generated project configured K times in fresh '
             'interpreters that differ in PYTHONHASHSEED, invocation form '
             '(configure / configure-into / 9k; from srcdir, builddir, an '
             'unrelated directory), relative/absolute/dot-slash spelling of '
             'the directories and of argv[0], unrelated environment '
             'variables, a shifted logical clock, pid, and configuring over '
             'an existing build directory; distinct = distinct (backend, '
             'project feature set, multiset of variant forms x hash seeds); '
             'non-trivial = at least two variants differ in hash seed or '
             'invocation form'),
    'real': ['bfg9000 from /repo working tree (fresh interpreter per run)'],
    'stubs': ['cc/c++/ar/ninja detection stubs', 'clock (logical mtimes)'],
    'assumptions': [
        'directory enumeration order is pinned (sorted os.listdir): the '
        'property does not promise independence from it',
        'variables documented in doc/reference/environment-vars.md are never '
        'used as noise',
    ],
}


def summarise(case):
    proj = case['proj']
    vs = case['variants']
    shape = '|'.join([case['backend'], ','.join(sorted(proj.features)),
                      ','.join(sorted('{}#{}'.format(v[0], v[1] != '0')
                                      for v in vs))])
    nontrivial = len({(v[0], v[1]) for v in vs}) > 1
    rep = None
    if case['violations']:
        rep = {'property': PROP, 'seed': case['seed'],
               'project': proj.to_json(), 'cfg': case['cfg'],
               'variants': [list(v) for v in vs], 'ops': []}
    return {
        'seed': case['seed'],
        'violations': [v.to_json() for v in case['violations']],
        'stats': {'configure_runs': len(case['trace']),
                  'backend.' + case['backend']: 1,
                  'toolchain.' + ('msvc' if case['cfg'].get('msvc')
                                  else 'gcc'): 1},
        'nontrivial': nontrivial,
        'shape': hashlib.sha256(shape.encode()).hexdigest()[:16],
        'digest': hashlib.sha256(repr(case['trace']).encode())
        .hexdigest()[:16],
        'sample': {'seed': case['seed'], 'backend': case['backend'],
                   'features': sorted(proj.features),
                   'variants': [[v[0], v[1], sorted(v[2]), v[3], v[4]]
                                for v in vs]},
        'replay': rep,
        'wall': case.get('wall'),
    }


def replay(rep, root):
    proj = G.Project.from_json(rep['project'])
    w = W.World(root)
    R.install_stubs(w, config=rep['cfg'], msvc=rep['cfg'].get('msvc'))
    proj.materialise(w)
    sim = S.Sim(w, proj, rep['cfg'])
    out = []
    try:
        base = None
        for vi, v in enumerate(rep['variants']):
            v = tuple(v)
            r = run_variant(w, sim, proj, v)
            if vi == 0:
                base = (sim.primary(), parse_aux(w.build))
                continue
            if not r.ok:
                out.append(Violation(PROP, 'configures', r.output[-600:],
                                     [], vi).to_json())
                break
            files, aux = sim.primary(), parse_aux(w.build)
            diff = sim.diff_files(files, base[0])
            if diff:
                out.append(Violation(
                    PROP, 'primary-identical', '{} differ'.format(diff),
                    ['differs:' + os.path.basename(d) for d in diff],
                    vi).to_json())
                break
            if aux != base[1]:
                out.append(Violation(PROP, 'aux-equal-as-sets', 'aux differ',
                                     [], vi).to_json())
                break
    finally:
        w.destroy()
    return out
