"""Deterministic stub toolchain for simulated worlds.

Invoked as:  python -SE tool.py <world> <toolname> [args...]

Every *step* (compile, link, archive, custom tool) writes outputs whose bytes
are a hash of the tool, its normalised argv and the content of every file it
reads, so staleness is visible in bytes; it logs one JSON line to
<world>/log/steps with the files it read and wrote; it stamps its outputs with
the next logical tick; it fails hard when an input is missing.  Detection
queries (`--version` and friends) answer just enough for bfg9000 to select the
gcc-like or the MSVC-like builder.
"""

import hashlib
import os
import re
import sys

EPOCH = 1000000000
NS = 1000000000


def jstr(s):
    out = ['"']
    for ch in s:
        o = ord(ch)
        if ch == '"':
            out.append('\\"')
        elif ch == '\\':
            out.append('\\\\')
        elif o < 0x20:
            out.append('\\u%04x' % o)
        else:
            out.append(ch)
    out.append('"')
    return ''.join(out)


def jlist(xs):
    return '[' + ', '.join(jstr(x) for x in xs) + ']'


class Ctx:
    def __init__(self, world, tool, argv):
        self.world = world
        self.tool = tool
        self.argv = argv
        self.reads = []
        self.writes = []

    def norm(self, s):
        return s.replace(self.world, '$W')

    def rel(self, path):
        p = os.path.normpath(os.path.join(os.getcwd(), path))
        if p == self.world or p.startswith(self.world + '/'):
            return p[len(self.world) + 1:]
        return p

    def read(self, path):
        try:
            with open(path, 'rb') as f:
                data = f.read()
        except (FileNotFoundError, NotADirectoryError):
            self.fail('missing input {}'.format(path))
        except IsADirectoryError:
            data = b'<dir>'
        r = self.rel(path)
        if r not in self.reads:
            self.reads.append(r)
        return data

    def next_tick(self):
        p = os.path.join(self.world, 'clock')
        try:
            with open(p) as f:
                t = int(f.read().strip() or 0)
        except FileNotFoundError:
            t = 0
        t += 1
        with open(p, 'w') as f:
            f.write(str(t))
        return t

    def step_no(self):
        p = os.path.join(self.world, 'log', 'stepno')
        try:
            with open(p) as f:
                n = int(f.read().strip() or 0)
        except FileNotFoundError:
            n = 0
        n += 1
        with open(p, 'w') as f:
            f.write(str(n))
        return n

    def planned_failure(self, n):
        p = os.path.join(self.world, 'log', 'stepfault')
        try:
            with open(p) as f:
                return int(f.read().strip()) == n
        except (FileNotFoundError, ValueError):
            return False

    def log(self, rc, note=''):
        line = ('{"tool": %s, "argv": %s, "cwd": %s, "reads": %s, '
                '"writes": %s, "rc": %d, "note": %s}\n' % (
                    jstr(self.tool), jlist(self.argv),
                    jstr(self.rel(os.getcwd())), jlist(self.reads),
                    jlist(self.writes), rc, jstr(note)))
        with open(os.path.join(self.world, 'log', 'steps'), 'a') as f:
            f.write(line)

    def fail(self, msg):
        sys.stderr.write('{}: error: {}\n'.format(self.tool, msg))
        self.log(1, msg)
        sys.exit(1)

    def finish(self, kind, outputs, extra_files=()):
        """Write hashed outputs, stamp, log."""
        n = self.step_no()
        if self.planned_failure(n):
            self.fail('injected step failure #{}'.format(n))
        h = hashlib.sha256()
        h.update(kind.encode())
        for a in self.argv:
            h.update(b'\0' + self.norm(a).encode('utf-8', 'surrogateescape'))
        for r in self.reads:
            h.update(b'\1' + r.encode('utf-8', 'surrogateescape'))
        h.update(self.digest_data)
        tick = self.next_tick()
        ns = (EPOCH + tick) * NS
        for i, out in enumerate(outputs):
            d = os.path.dirname(out)
            if d and not os.path.isdir(d):
                self.fail('output directory {} does not exist'.format(d))
            if os.path.isdir(out):
                self.fail('output {} is a directory'.format(out))
            if os.path.islink(out):
                os.remove(out)
            with open(out, 'w') as f:
                f.write('{} {} {}\n'.format(kind, i, h.hexdigest()))
            os.utime(out, ns=(ns, ns))
            self.writes.append(self.rel(out))
        for path, text in extra_files:
            with open(path, 'w') as f:
                f.write(text)
            os.utime(path, ns=(ns, ns))
            self.writes.append(self.rel(path))
        self.log(0)


INCLUDE_RE = re.compile(rb'^[ \t]*#[ \t]*include[ \t]*(["<])([^">]+)[">]',
                        re.M)


def scan_includes(ctx, src, incdirs, seen, h):
    """gcc-like include resolution, recursively; returns list of headers."""
    data = ctx.read(src)
    h.update(b'\2' + data)
    for m in INCLUDE_RE.finditer(data):
        quote, name = m.group(1), os.fsdecode(m.group(2))
        cands = []
        if quote == b'"':
            cands.append(os.path.join(os.path.dirname(src), name))
        cands += [os.path.join(d, name) for d in incdirs]
        for c in cands:
            if os.path.isfile(c):
                c = os.path.normpath(c)
                if c not in seen:
                    seen.append(c)
                    scan_includes(ctx, c, incdirs, seen, h)
                break
        else:
            if quote == b'"':
                ctx.fail('{}: fatal error: {}: No such file or directory'
                         .format(src, name))


def dep_escape(s):
    return (s.replace('\\', '\\\\').replace(' ', '\\ ').replace('#', '\\#')
            .replace('$', '$$'))


GCC_ARG_OPTS = {'-o', '-MF', '-MT', '-MQ', '-I', '-isystem', '-iquote',
                '-include', '-x', '-D', '-U', '-L', '-l', '-Xlinker',
                '-target', '-arch', '-idirafter', '-install_name'}


def gcc_like(ctx):
    argv = ctx.argv
    if '--version' in argv and '-Wl,--version' not in argv:
        sys.stdout.write('{} (GCC) 12.2.0\nCopyright (C) 2022 Free Software '
                         'Foundation, Inc.\n'.format(ctx.tool))
        return 0
    if '-?' in argv or '/?' in argv:
        sys.stderr.write('unrecognized option\n')
        return 1
    if '-print-search-dirs' in argv:
        sys.stdout.write('install: /usr/lib/gcc\nprograms: =/usr/bin\n'
                         'libraries: =/usr/lib\n')
        return 0
    if '-print-sysroot' in argv:
        sys.stdout.write('\n')
        return 0
    if '-dumpmachine' in argv:
        sys.stdout.write('x86_64-linux-gnu\n')
        return 0
    if '-Wl,--version' in argv:
        sys.stderr.write(' /usr/lib/gcc/collect2 --version\n')
        sys.stdout.write('GNU ld (GNU Binutils for Debian) 2.40\n')
        return 0
    if '-E' in argv and '-Wp,-v' in argv:
        sys.stdout.write('#include "..." search starts here:\n'
                         '#include <...> search starts here:\n'
                         ' /usr/include\nEnd of search list.\n')
        return 0

    out = depfile = None
    incdirs, forced, inputs, libdirs, libs = [], [], [], [], []
    compile_only = False
    i = 0
    while i < len(argv):
        a = argv[i]
        nxt = argv[i + 1] if i + 1 < len(argv) else None
        if a == '-c':
            compile_only = True
        elif a == '-o':
            out = nxt
            i += 1
        elif a == '-MF':
            depfile = nxt
            i += 1
        elif a in ('-I', '-isystem', '-iquote', '-idirafter'):
            incdirs.append(nxt)
            i += 1
        elif a.startswith('-I') and len(a) > 2:
            incdirs.append(a[2:])
        elif a == '-include':
            forced.append(nxt)
            i += 1
        elif a == '-L':
            libdirs.append(nxt)
            i += 1
        elif a.startswith('-L') and len(a) > 2:
            libdirs.append(a[2:])
        elif a == '-l':
            libs.append(nxt)
            i += 1
        elif a.startswith('-l') and len(a) > 2:
            libs.append(a[2:])
        elif a in GCC_ARG_OPTS:
            i += 1
        elif a.startswith('-'):
            pass
        else:
            inputs.append(a)
        i += 1

    if out is None:
        ctx.fail('no output given: ' + ' '.join(argv))
    h = hashlib.sha256()
    if compile_only:
        if len(inputs) != 1:
            ctx.fail('expected exactly one source, got {}'.format(inputs))
        src = inputs[0]
        seen = []
        for f in forced:
            # gcc prefers <hdr>.gch when it exists
            if os.path.isfile(f + '.gch'):
                h.update(b'\3' + ctx.read(f + '.gch'))
                seen.append(os.path.normpath(f + '.gch'))
            elif os.path.isfile(f):
                seen.append(os.path.normpath(f))
                scan_includes(ctx, f, incdirs, seen, h)
            else:
                ctx.fail('forced include {} not found'.format(f))
        scan_includes(ctx, src, incdirs, seen, h)
        ctx.digest_data = h.digest()
        extra = []
        if depfile:
            text = '{}: {}'.format(dep_escape(out), dep_escape(src))
            for s in seen:
                # like gcc: a forced include satisfied from a .gch is not
                # listed (nor is anything reached only through it), so the
                # build file's own edge to the precompiled header is the
                # only one
                if s.endswith('.gch'):
                    continue
                text += ' \\\n {}'.format(dep_escape(s))
            extra.append((depfile, text + '\n'))
        ctx.finish('OBJ', [out], extra)
        return 0

    # link
    for f in inputs:
        h.update(b'\4' + ctx.read(f))
    for l in libs:
        for d in libdirs:
            for name in ('lib{}.so'.format(l), 'lib{}.a'.format(l)):
                p = os.path.join(d, name)
                if os.path.isfile(p):
                    h.update(b'\5' + ctx.read(p))
                    break
            else:
                continue
            break
    ctx.digest_data = h.digest()
    ctx.finish('BIN', [out])
    return 0


def ar_like(ctx):
    argv = ctx.argv
    if '--version' in argv:
        sys.stdout.write('GNU ar (GNU Binutils) 2.40\n')
        return 0
    if len(argv) < 2:
        ctx.fail('usage: ar flags archive members')
    out, members = argv[1], argv[2:]
    h = hashlib.sha256()
    for m in members:
        h.update(b'\4' + ctx.read(m))
    ctx.digest_data = h.digest()
    ctx.finish('LIB', [out])
    return 0


def simtool(ctx):
    """simtool [--fail] [--in FILE]... [--out FILE]... [--arg X]..."""
    argv = ctx.argv
    ins, outs = [], []
    fail = False
    cur = None
    for a in argv:
        if a == '--in':
            cur = ins
        elif a == '--out':
            cur = outs
        elif a == '--arg':
            cur = []
        elif a == '--fail':
            fail = True
        elif cur is not None:
            cur.append(a)
    h = hashlib.sha256()
    for f in ins:
        h.update(b'\4' + ctx.read(f))
    ctx.digest_data = h.digest()
    if fail:
        ctx.fail('asked to fail')
    ctx.finish('GEN', outs)
    return 0


MSVC_DETECT = ('Microsoft (R) C/C++ Optimizing Compiler Version '
               '19.29.30133 for x64\n')


def cl_like(ctx):
    argv = ctx.argv
    if not argv or '-?' in argv or '/?' in argv:
        sys.stdout.write(MSVC_DETECT)
        sys.stderr.write(MSVC_DETECT)
        return 0
    ctx.fail('cl stub does not execute steps: ' + ' '.join(argv))


def link_like(ctx):
    argv = ctx.argv
    if not argv or '-?' in argv or '/?' in argv:
        sys.stdout.write('Microsoft (R) Incremental Linker Version '
                         '14.29.30133.0\n')
        return 0
    ctx.fail('link stub does not execute steps')


def ninja_like(ctx):
    if '--version' in ctx.argv:
        sys.stdout.write('1.11.1\n')
        return 0
    if ctx.argv[:2] == ['-t', 'clean']:
        here = os.path.dirname(os.path.dirname(os.path.abspath(__file__)))
        os.execv(sys.executable, [sys.executable, '-E',
                                  os.path.join(here, 'refninja.py'),
                                  '-t', 'clean'])
    sys.stderr.write('ninja stub: only --version and -t clean are answered; '
                     'the reference executor runs manifests\n')
    return 2


REAL = {'cc': '/usr/bin/gcc', 'gcc': '/usr/bin/gcc', 'c++': '/usr/bin/g++',
        'g++': '/usr/bin/g++', 'ar': '/usr/bin/ar'}


def real_tool(ctx):
    """Logging wrapper around the real gcc/g++/ar (C07): run the real tool,
    then stamp what it wrote with the next logical tick and log the step."""
    argv = ctx.argv
    real = REAL[ctx.tool[len('real-'):]]
    rc = os.spawnv(os.P_WAIT, real, [real] + argv)
    outs = []
    if ctx.tool == 'real-ar':
        if len(argv) >= 2 and not argv[0].startswith('--'):
            outs = [argv[1]]
            ctx.reads = [ctx.rel(a) for a in argv[2:]]
    else:
        for i, a in enumerate(argv):
            if a in ('-o', '-MF') and i + 1 < len(argv):
                outs.append(argv[i + 1])
        if '-o' in argv:
            skip = set()
            for i, a in enumerate(argv):
                if a in GCC_ARG_OPTS:
                    skip.add(i + 1)
            ctx.reads = [ctx.rel(a) for i, a in enumerate(argv)
                         if not a.startswith('-') and i not in skip]
    if not outs:
        return rc
    if rc == 0:
        tick = ctx.next_tick()
        ns = (EPOCH + tick) * NS
        for o in outs:
            if os.path.exists(o):
                os.utime(o, ns=(ns, ns))
                ctx.writes.append(ctx.rel(o))
    ctx.log(rc, 'real')
    return rc


def copy_like(ctx):
    """cp / ln as used by copy_file rules and custom commands: the real tool,
    then the destination gets the next logical tick - unless the tool was
    asked to preserve times (cp -p/-a) or makes a hard link (shared inode) -
    and the step is logged like any other."""
    argv = ctx.argv
    real = '/usr/bin/' + ctx.tool
    rc = os.spawnv(os.P_WAIT, real, [real] + argv)
    if rc != 0:
        return rc
    flags = [a for a in argv if a.startswith('-')]
    paths = [a for a in argv if not a.startswith('-')]
    if len(paths) < 2:
        return 0
    dst = paths[-1]
    if os.path.isdir(dst) and not os.path.islink(dst):
        dst = os.path.join(dst, os.path.basename(paths[0]))
    preserve = any(a.startswith('--preserve') or a == '--archive' or
                   (not a.startswith('--') and ('p' in a or 'a' in a))
                   for a in flags)
    symbolic = any(a == '--symbolic' or (not a.startswith('--') and 's' in a)
                   for a in flags)
    if ctx.tool == 'cp' and not preserve or ctx.tool == 'ln' and symbolic:
        tick = ctx.next_tick()
        ns = (EPOCH + tick) * NS
        os.utime(dst, ns=(ns, ns), follow_symlinks=False)
    ctx.reads = [ctx.rel(p) for p in paths[:-1]]
    ctx.writes = [ctx.rel(dst)]
    ctx.log(0, 'real')
    return 0


def patchelf_like(ctx):
    # install-time rpath fix-ups of stub "binaries": nothing to do
    if '--version' in ctx.argv:
        sys.stdout.write('patchelf 0.14.3\n')
    return 0


TOOLS = {
    'cp': copy_like, 'ln': copy_like,
    'patchelf': patchelf_like,
    'cc': gcc_like, 'c++': gcc_like, 'gcc': gcc_like, 'g++': gcc_like,
    'ar': ar_like, 'simtool': simtool, 'cl': cl_like, 'link': link_like,
    'lib': link_like, 'ninja': ninja_like,
}


def main():
    world, tool = sys.argv[1], sys.argv[2]
    ctx = Ctx(world, tool, sys.argv[3:])
    fn = TOOLS.get(tool)
    if tool.startswith('real-'):
        fn = real_tool
    if fn is None:
        base = re.sub(r'[-_.0-9]+$', '', tool)
        fn = TOOLS.get(base, gcc_like)
    sys.exit(fn(ctx) or 0)


if __name__ == '__main__':
    main()
