"""C08 - automatic regeneration equals a fresh configure, and converges.

World = generated discovery-rich project; history = edits to the source tree
interleaved with the backend's own regeneration step; oracle = byte equality
with a fresh configure, bounded launches (no livelock), quiescence."""

import os
import random
import re

from . import gen as G
from . import sim as S
from .sim import Violation
from .world import HarnessError

PROP = 'C08'


def list_tree(world):
    files, dirs = [], []
    for base, ds, fs in os.walk(world.src):
        ds.sort()
        rel = os.path.relpath(base, world.src)
        if rel != '.':
            dirs.append(rel)
        for f in sorted(fs):
            files.append(os.path.normpath(os.path.join(rel, f)))
    return files, dirs


class EditGen:
    """Draws concrete edit operations from the PRNG by looking at the current
    tree.  Preconditions keep the project consistent (explicitly named files
    and the roots of searches are never removed)."""

    def __init__(self, rng, world, proj):
        self.rng = rng
        self.world = world
        self.proj = proj
        self.n = 0
        self.protected = set(proj.scripts)
        self.protected_dirs = set()
        for rel in list(proj.files) + list(proj.scripts):
            top = rel.split('/')[0]
            if '/' in rel:
                self.protected_dirs.add(top)
        for rel in proj.files:
            base = os.path.basename(rel)
            if base in ('main.c', 'test.c', 'core.c', 'sub.c', 'fixed.txt',
                        'x1.c'):
                self.protected.add(rel)
                d = os.path.dirname(rel)
                while d:
                    self.protected_dirs.add(d)
                    d = os.path.dirname(d)
        self.nocache_dirs = {'static'}

    def fresh_name(self):
        self.n += 1
        return '{}{}'.format(self.rng.choice(G.NAMES), self.n)

    def editable_dirs(self, dirs):
        return [d for d in dirs if d.split('/')[0] not in self.nocache_dirs]

    def removable(self, rel):
        if rel in self.protected:
            return False
        return rel.split('/')[0] not in self.nocache_dirs and '/' in rel

    def retire_searches(self):
        """Script edits after which no search of the project is cached any
        more: unused searches are deleted, used ones get cache=False (same
        result, no bookkeeping).  None when a search is written in a form
        this cannot rewrite."""
        ops = []
        for sname in sorted(self.proj.scripts):
            if not os.path.exists(self.world.s(sname)) or \
               not sname.endswith('build.bfg'):
                continue
            text = self.world.read(sname)
            if 'include=' in text or 'cache=' in text:
                return None
            out = []
            for line in text.split('\n'):
                m = re.match(r'^(\w+) = find_(files|paths)\((.*)\)$', line)
                if m:
                    if len(re.findall(r'\b{}\b'.format(m.group(1)),
                                      text)) == 1:
                        continue
                    line = line[:-1] + ', cache=False)'
                elif 'find_files(' in line or 'find_paths(' in line:
                    return None
                out.append(line)
            new = '\n'.join(out)
            if new != text:
                ops.append(['write', sname, new])
        return ops or None

    def next_edit(self, force=None):
        rng = self.rng
        files, dirs = list_tree(self.world)
        dirs = self.editable_dirs(dirs)
        rfiles = [f for f in files if self.removable(f)]
        rdirs = [d for d in dirs if d not in self.protected_dirs
                 and not any(p == d or p.startswith(d + '/')
                             for p in self.protected)]
        kinds = ['add_file'] * 6 + ['script_comment'] * 2 + \
            ['script_semantic'] * 2 + ['mkdir'] * 2 + ['modify'] + \
            ['tick'] + ['hold'] + ['add_submodule']
        if getattr(self, 'added_subs', None):
            kinds += ['remove_submodule'] * 2 + ['lose_sub_script'] + \
                ['edit_added_sub'] * 3
        if 'options.bfg' in self.proj.scripts and \
           os.path.exists(self.world.s('options.bfg')):
            kinds += ['lose_options']
        if 'options.late' in self.proj.features and \
           not os.path.exists(self.world.s('options.bfg')):
            kinds += ['create_options'] * 3
        # the base directory of a search is replaced wholesale by a prepared
        # one (mv src src-prev; mv src-next src): two steps, usually with a
        # regeneration in between
        bases = sorted({st.facts['base'] for st in self.proj.stmts('find')
                        if st.facts.get('base') and
                        '/' not in st.facts['base'] and
                        st.facts['base'] not in self.nocache_dirs and
                        st.facts.get('kw', {}).get('cache') != 'False' and
                        os.path.isdir(self.world.s(st.facts['base']))})
        ready = getattr(self, 'swap_ready', None)
        if ready and os.path.isdir(self.world.s(ready + '-next')):
            kinds += ['swap_base'] * 4
        elif bases and not ready:
            kinds += ['prepare_swap']
        if rfiles:
            kinds += ['remove_file'] * 4 + ['rename_file'] * 2 + \
                ['move_file'] * 2 + ['file_to_dir']
            if 'install_found' in self.proj.features:
                kinds += ['file_to_dir'] * 3
        if rdirs:
            kinds += ['remove_dir'] * 2 + ['rename_dir'] * 2
        absent = getattr(self.proj, 'absent_base', None) or \
            ('later' if 'find.absent_base' in self.proj.features else None)
        if absent:
            kinds += ['absent_base'] * 3
        k = rng.choice(kinds)
        if force:
            k = force
        if k == 'hold':
            # the next few edits happen within one tick of the clock
            return [['hold', rng.randint(2, 4)]], 'hold'
        if k == 'add_submodule':
            self.n += 1
            name = 'addsub{}'.format(self.n)
            self.added_subs = getattr(self, 'added_subs', []) + [name]
            # with or without a search of its own
            files = "find_files('**/*.c')"
            if rng.random() < 0.5 or force:
                files = "['one.c']"
                self.protected.add(name + '/one.c')
                self.protected_dirs.add(name)
            return [
                ['write', name + '/build.bfg',
                 "# added submodule\nfound = {}\n"
                 "lib = static_library('{}', files=found)\n".format(
                     files, name)],
                ['write', name + '/one.c', G.c_source(name)],
                ['append', 'build.bfg',
                 "{0} = submodule('{0}')\n".format(name)],
            ], 'add_submodule'
        if k == 'remove_submodule':
            name = self.added_subs.pop(rng.randrange(len(self.added_subs)))
            text = self.world.read('build.bfg')
            line = "{0} = submodule('{0}')\n".format(name)
            return [['write', 'build.bfg', text.replace(line, '')],
                    ['remove', name]], 'remove_submodule'
        if k == 'prepare_swap':
            base = rng.choice(bases)
            self.swap_ready = base
            nxt = base + '-next'
            ops = [['mkdir', nxt]]
            # what the script names explicitly has to exist afterwards too
            for rel in sorted(self.protected):
                if rel.startswith(base + '/'):
                    ops.append(['write', nxt + rel[len(base):],
                                self.world.read(rel)])
            new = '{}/{}.c'.format(nxt, self.fresh_name())
            ops.append(['write', new, G.c_source(new)])
            return ops, 'prepare_swap'
        if k == 'swap_base':
            base = self.swap_ready
            self.swap_ready = None
            self.n += 1
            return [['rename', base, '{}-prev{}'.format(base, self.n)],
                    ['rename', base + '-next', base]], 'swap_base'
        if k == 'create_options':
            # the project gets an options.bfg only now
            return [['write', 'options.bfg',
                     "argument('late', default='7')\n"]], 'create_options'
        if k == 'lose_options':
            # an input of the regenerate step vanishes while the main script
            # is untouched (fresh configure may or may not still work)
            if rng.random() < 0.5:
                return [['remove', 'options.bfg']], 'remove_options'
            return [['rename', 'options.bfg', 'options.bfg.bak']], \
                'rename_options'
        if k == 'edit_added_sub':
            # an edit of a script that became an input of the regeneration
            # step only after the first configure
            name = rng.choice(self.added_subs)
            self.n += 1
            if not os.path.exists(self.world.s(name + '/build.bfg')):
                return [['tick', 1]], 'tick'
            return [['append', name + '/build.bfg',
                     "alias('{}_also{}', [lib])\n".format(name, self.n)]], \
                'edit_added_sub'
        if k == 'lose_sub_script':
            name = rng.choice(self.added_subs)
            return [['rename', name + '/build.bfg',
                     name + '/build.bfg.off']], 'lose_sub_script'
        if k == 'absent_base':
            # create (or remove again) the missing base of a search
            if os.path.isdir(self.world.s(absent)):
                if rng.random() < 0.5:
                    return [['remove', absent]], 'remove_base'
                rel = '{}/{}.c'.format(absent, self.fresh_name())
                return [['write', rel, G.c_source(rel)]], 'add:base.c'
            rel = '{}/{}.c'.format(absent, self.fresh_name())
            ops = [['mkdir', absent]]
            if rng.random() < 0.7:
                ops.append(['write', rel, G.c_source(rel)])
            return ops, 'create_base'
        if k == 'add_file':
            d = rng.choice(dirs)
            suffix = rng.choice(['', '', '', '_test', '_windows', '_linux'])
            ext = rng.choice(['.c', '.c', '.h', '.txt', '.dat', '.md'])
            rel = '{}/{}{}{}'.format(d, self.fresh_name(), suffix, ext)
            op = ['write', rel, G.c_source(rel)]
            if rng.random() < 0.15:
                op.append(rng.randint(2, 50))     # carries an old mtime
            return [op], 'add:' + ext
        if k == 'remove_file':
            return [['remove', rng.choice(rfiles)]], 'remove_file'
        if k == 'rename_file':
            f = rng.choice(rfiles)
            ext = os.path.splitext(f)[1]
            new = os.path.join(os.path.dirname(f), self.fresh_name() + ext)
            return [['rename', f, new]], 'rename_file'
        if k == 'move_file':
            f = rng.choice(rfiles)
            d = rng.choice(dirs)
            new = os.path.join(d, os.path.basename(f))
            return [['rename', f, new]], 'move_file'
        if k == 'file_to_dir':
            f = rng.choice(rfiles)
            # where a search takes files and directories alike, the swap
            # keeps the name among the matches
            both = [x for x in rfiles if x.startswith('assets/')]
            if both and rng.random() < 0.6:
                f = rng.choice(both)
            ops = [['remove', f], ['mkdir', f]]
            if rng.random() < 0.5:
                inner = '{}/{}.c'.format(f, self.fresh_name())
                ops.append(['write', inner, G.c_source(inner)])
            return ops, 'file_to_dir'
        if k == 'mkdir':
            d = '{}/{}'.format(rng.choice(dirs), self.fresh_name())
            ops = [['mkdir', d]]
            if rng.random() < 0.4:
                inner = '{}/{}.c'.format(d, self.fresh_name())
                ops.append(['write', inner, G.c_source(inner)])
            return ops, 'mkdir'
        if k == 'remove_dir':
            return [['remove', rng.choice(rdirs)]], 'remove_dir'
        if k == 'rename_dir':
            d = rng.choice(rdirs)
            new = os.path.join(os.path.dirname(d), self.fresh_name())
            return [['rename', d, new]], 'rename_dir'
        if k == 'modify':
            cands = [f for f in files if f.endswith(('.c', '.h', '.txt'))]
            f = rng.choice(cands)
            return [['append', f, '/* edit {} */\n'.format(self.n)]], 'modify'
        if k == 'tick':
            return [['tick', rng.randint(1, 5)]], 'tick'
        if k == 'script_comment':
            s = rng.choice(sorted(self.proj.scripts))
            self.n += 1
            return [['append', s, '# comment {}\n'.format(self.n)]], \
                'script_comment'
        if k == 'script_semantic':
            return self.semantic_edit(dirs)
        raise HarnessError(k)

    def semantic_edit(self, dirs):
        rng = self.rng
        self.n += 1
        scripts = sorted(self.proj.scripts)
        s = rng.choice(scripts)
        if s == 'options.bfg':
            return [['append', s, "argument('extra{}', default='d')\n"
                     .format(self.n)]], 'script_semantic:options'
        if s.endswith('/options.bfg'):
            # a nested options script: another default for its argument
            text = self.world.read(s)
            new = re.sub(r"default='n\d+'", "default='n{}'".format(
                self.n + 1), text)
            return [['write', s, new]], 'script_semantic:nested-options'
        if s == 'toolchain.bfg':
            x = rng.random()
            text = self.world.read(s)
            lines = text.rstrip('\n').split('\n')
            if x < 0.35 and len(lines) > 2:
                # remove a setting: the next regeneration must forget it
                del lines[rng.randrange(1, len(lines))]
                return [['write', s, '\n'.join(lines) + '\n']], \
                    'script_semantic:toolchain-remove'
            if x < 0.6:
                return [['append', s, "environ['CFLAGS'] = environ.get("
                         "'CFLAGS', '') + ' -DAPP{}'\n".format(self.n)]], \
                    'script_semantic:toolchain-append'
            return [['append', s, "environ['CFLAGS'] = '-O{} -DX{}'\n"
                     .format(rng.randrange(3), self.n)]], \
                'script_semantic:toolchain'
        if s != 'build.bfg':
            # a submodule script: add another search below the submodule
            return [['append', s, "more{0} = find_files('**/*.h')\n"
                     .format(self.n)]], 'script_semantic:submodule'
        choice = rng.randrange(4)
        if choice == 3:
            # delete a search whose result nothing else in the script uses
            text = self.world.read(s)
            lines = text.split('\n')
            cands = []
            for i, line in enumerate(lines):
                m = re.match(r'^(\w+) = find_(files|paths)\(', line)
                if m and len(re.findall(r'\b{}\b'.format(m.group(1)),
                                        text)) == 1:
                    cands.append(i)
            if cands:
                if rng.random() < 0.3:
                    drop = set(cands)          # every unused search at once
                else:
                    drop = {rng.choice(cands)}
                new = '\n'.join(l for i, l in enumerate(lines)
                                if i not in drop)
                return [['write', s, new]], 'script_semantic:drop_find'
            choice = 0
        if choice == 0:
            d = rng.choice(dirs)
            pat = rng.choice(['{}/*.dat', '{}/**/*.txt', '{}/*.c',
                              '{}/**/']).format(d)
            return [['append', s, "more{} = find_files({!r})\n"
                     .format(self.n, pat)]], 'script_semantic:find'
        if choice == 1:
            return [['append', s, "alias('extra{}', [prog])\n"
                     .format(self.n)]], 'script_semantic:alias'
        return [['append', s,
                 "command('cmd{0}', cmd=['true', 'x{0}'])\n"
                 .format(self.n)]], 'script_semantic:command'


class C08History:
    def __init__(self, sim):
        self.sim = sim
        self.violations = []
        self.trace = []        # behaviour log (for determinism digests)
        self.nontrivial = False

    def regen_oracle(self, r, idx, kind):
        """Evaluate C08's oracles after a regeneration step that returned r."""
        sim = self.sim
        feats = {'backend=' + sim.backend, 'via=' + kind,
                 'clock=' + sim.cfg.get('clock_mode', 'strict')}
        feats |= {'proj.' + f for f in sim.proj.features}
        if 'options.late' in sim.proj.features and \
           os.path.exists(sim.world.s('options.bfg')):
            bf = sim.world.read_build(sim.buildfile) or ''
            if 'options.bfg' not in bf:
                # an options.bfg that appeared after the build files were
                # written: nothing the backend reads mentions it
                feats.add('unwatched-new-options-file')
        outcomes = [i.get('outcome') for i in r.inv]
        self.trace.append(['regen', kind, r.status, outcomes])
        if any(o == 'full' for o in outcomes) or \
           any(o == 'noop' for o in outcomes):
            self.nontrivial = True
        for o in outcomes:
            sim.count('launch.' + str(o))
        if 'livelock' in outcomes:
            self.violations.append(Violation(
                PROP, 'termination',
                'backend run launched bfg9000 more than {} times'
                .format(sim.cfg.get('launch_limit', 3)), feats, idx))
            return
        fresh, ref, ref_aux = sim.fresh_reference()
        if not fresh.ok:
            sim.count('fresh_failed')
            if r.ok:
                self.violations.append(Violation(
                    PROP, 'equality',
                    'fresh configure fails but regeneration step exits 0',
                    feats | {'fresh_fails'}, idx))
            return
        if not r.ok and kind == 'build' and r.inv and \
           all(i.get('status') == 0 for i in r.inv):
            # The regeneration step itself succeeded; a later *build* step of
            # the same backend run failed (GNU make keeps executing the graph
            # it read before the regeneration when the build file is remade
            # through a stamp file).  C08 speaks about the build files, which
            # are compared below; the failing build is counted, not gated.
            sim.count('probe.build_failed_after_successful_regen')
        elif not r.ok:
            self.violations.append(Violation(
                PROP, 'equality',
                'regeneration step failed ({}) although a fresh configure '
                'succeeds: {}'.format(r.status, r.output[-400:]),
                feats | {'regen_fails'}, idx))
            return
        mine = sim.primary()
        diff = sim.diff_files(mine, ref)
        if diff:
            import difflib
            d0 = diff[0]
            ud = list(difflib.unified_diff(
                ref.get(d0, '').splitlines(), mine.get(d0, '').splitlines(),
                'fresh/' + d0, 'regenerated/' + d0, lineterm='', n=0))
            self.violations.append(Violation(
                PROP, 'equality',
                'after regeneration {} differ from a fresh configure:\n{}'
                .format(diff, '\n'.join(l[:300] for l in ud[:12])),
                feats | {'differs:' + os.path.basename(d)
                         for d in diff}, idx))
            return
        aux = sim.aux()
        if (aux and aux[1]) != (ref_aux and ref_aux[1]):
            sim.count('aux_find_deps_differs')
            if sim.cfg.get('gate_aux', True):
                self.violations.append(Violation(
                    PROP, 'equality',
                    '.bfg_find_deps (included by the build file) lists '
                    'different directories than a fresh configure: '
                    'only-mine={} only-fresh={}'.format(
                        sorted((aux[1] if aux else set()) -
                               (ref_aux[1] if ref_aux else set())),
                        sorted((ref_aux[1] if ref_aux else set()) -
                               (aux[1] if aux else set()))),
                    feats | {'differs:.bfg_find_deps'}, idx))
                return
        # quiescence: a second run regenerates nothing.  The statement is
        # about two consecutive runs of the *backend's* step: after a
        # regeneration by hand the backend's bookkeeping (stamp file) may
        # legitimately ask for one run of its own first
        if kind.startswith('explicit'):
            r1 = sim.regen_step()
            self.trace.append(['regen1', r1.status,
                               [i.get('outcome') for i in r1.inv]])
            if 'livelock' in [i.get('outcome') for i in r1.inv] or \
               not r1.ok:
                self.violations.append(Violation(
                    PROP, 'termination' if r1.ok or any(
                        i.get('outcome') == 'livelock' for i in r1.inv)
                    else 'equality',
                    'the backend step after a regeneration by hand: status '
                    '{}'.format(r1.status), feats | {'after_explicit'}, idx))
                return
            if sim.diff_files(sim.primary(), ref):
                self.violations.append(Violation(
                    PROP, 'equality', 'the backend step after a '
                    'regeneration by hand changed the build files',
                    feats | {'after_explicit'}, idx))
                return
        before = sim.primary()
        r2 = sim.regen_step() if kind != 'build' else sim.backend_run()
        out2 = [i.get('outcome') for i in r2.inv]
        self.trace.append(['regen2', r2.status, out2])
        if 'livelock' in out2:
            self.violations.append(Violation(
                PROP, 'termination', 'second run does not terminate',
                feats | {'second_run'}, idx))
            return
        # via a whole build: a *build* step that already failed in the first
        # run (a source file went away) fails again; that is not about
        # regeneration
        failed2 = not r2.ok and (kind != 'build' or r.ok)
        if not r2.ok and not failed2:
            sim.count('second_build_fails_like_first')
        if 'full' in out2 or failed2 or sim.primary() != before:
            self.violations.append(Violation(
                PROP, 'quiescence',
                'second regeneration step right after the first: status={} '
                'outcomes={}'.format(r2.status, out2), feats, idx))
        elif out2:
            sim.count('second_run_lazy_launches', len(out2))

    def step(self, op, idx):
        sim = self.sim
        k = op[0]
        if k in ('regen', 'build', 'bfg'):
            # edits that share a tick must all happen before the next run:
            # an edit stamped with a tick from before a run would be older
            # than the run's outputs and invisible to every mtime-based tool
            sim.world._held = None
        if k == 'regen':
            r = sim.regen_step()
            self.regen_oracle(r, idx, 'backend')
        elif k == 'build':
            r = sim.backend_run()
            if r.steps:
                self.nontrivial = True
            self.regen_oracle(r, idx, 'build')
        elif k == 'bfg':
            # '$BUILD' stands for this world's build directory (an absolute
            # path of the world that recorded the history is mapped as well)
            args = [sim.world.build if a == '$BUILD' or re.match(
                r'^/.*/w(\d+|min\d*|replay\d*)?[^/]*/build$', a) else a
                for a in op[1]]
            r = sim.bfg(args)
            self.regen_oracle(r, idx, 'explicit' +
                              ('-lazy' if '--lazy' in op[1] else ''))
        else:
            applied = sim.apply_edit(op)
            self.trace.append(['edit', op[0], op[1] if len(op) > 1 else None,
                               applied])


def make_config(rng, backend):
    return {
        'clock_mode': rng.choice(['strict', 'strict', 'coarse']),
        'bufsize': rng.choice([512, 1024, 4096, 8192]),
        'launch_limit': 3,
        'backend': backend,
        'jobs': rng.choice([1, 2, 4]),
    }


def setup_world(root, proj, cfg):
    from . import bfgrun as R
    from . import world as W
    w = W.World(root)
    R.install_stubs(w, config=cfg)
    proj.materialise(w)
    return w


def execute(root, proj, cfg, ops, online=None):
    """Run a history.  `ops` is a concrete list (replay) or, when `online` is
    given, is filled by online(hist, sim) as the run proceeds."""
    w = setup_world(root, proj, cfg)
    sim = S.Sim(w, proj, cfg)
    hist = C08History(sim)
    try:
        r = sim.configure()
        if not r.ok:
            raise HarnessError('initial configure failed:\n' + r.output)
        hist.trace.append(['configure', r.status])
        if online is not None:
            online(hist, sim, ops)
        else:
            for i, op in enumerate(ops):
                hist.step(op, i)
                if hist.violations:
                    break
    finally:
        if not os.environ.get('BFGSIM_KEEP'):
            w.destroy()
    return hist


def run_case(seed, root, params=None):
    params = params or {}
    rng = random.Random(seed)
    backend = rng.choice(params.get('backends', ['make', 'ninja']))
    cfg = make_config(rng, backend)
    cfg['seed'] = seed
    cfg['gate_aux'] = params.get('gate_aux', True)
    proj = G.RegenGen(rng, backend).generate()
    ops = []
    n_rounds = rng.randint(2, params.get('max_rounds', 5))

    def online(hist, sim, ops):
        eg = EditGen(rng, sim.world, proj)

        def do(op):
            ops.append(op)
            hist.step(op, len(ops) - 1)
            return bool(hist.violations)

        def regen_op():
            x = rng.random()
            if x < 0.7:
                return ['regen']
            if x < 0.8:
                return ['build']
            if x < 0.9:
                return ['bfg', ['regenerate', '--lazy', '$BUILD']]
            return ['bfg', ['regenerate', '$BUILD']]

        if rng.random() < 0.5:
            if do(['build'] if rng.random() < 0.5 else ['regen']):
                return
        if proj.toolchain and rng.random() < params.get('strip', 0.15):
            # the settings of the toolchain file are taken back one by one,
            # each followed by a regeneration that has to forget it
            text = sim.world.read(proj.toolchain)
            lines = text.rstrip('\n').split('\n')
            order = list(range(1, len(lines)))
            rng.shuffle(order)
            sim.count('phased.strip_toolchain')
            gone = set()
            for i in order:
                gone.add(i)
                new = '\n'.join(l for j, l in enumerate(lines)
                                if j not in gone) + '\n'
                if do(['write', proj.toolchain, new]) or do(regen_op()):
                    return
        if rng.random() < params.get('phased', 0.1):
            # a phased history: the script stops using a feature that has
            # bookkeeping of its own in the build directory, later a new
            # input of the regeneration step appears, later only that input
            # is edited
            retire = eg.retire_searches()
            if retire:
                sim.count('phased.retire_searches')
                for phase in (retire, None, 'add_submodule', None,
                              'edit_added_sub', None, 'edit_added_sub',
                              None):
                    if phase is None:
                        if do(regen_op()):
                            return
                        continue
                    edits = phase if isinstance(phase, list) else \
                        eg.next_edit(force=phase)[0]
                    for e in edits:
                        if do(e):
                            return
                return
        for _ in range(n_rounds):
            for _ in range(rng.randint(1, 3)):
                edits, label = eg.next_edit()
                for e in edits:
                    if do(e):
                        return
            x = rng.random()
            if x < 0.7:
                op = ['regen']
            elif x < 0.8:
                op = ['build']
            elif x < 0.9:
                op = ['bfg', ['regenerate', '--lazy', '$BUILD']]
            else:
                op = ['bfg', ['regenerate', '$BUILD']]
            if do(op):
                return

    hist = execute(root, proj, cfg, ops, online)
    return {'proj': proj, 'cfg': cfg, 'ops': ops, 'hist': hist}


# -- check interface ----------------------------------------------------------

PARAMS = {
    'quick': {'budget': 70, 'max_rounds': 4},
    'thorough': {'budget': 900, 'max_rounds': 7},
}

EVIDENCE = {
    'level': 'exploration',
    'rule': ('one case = one generated discovery-rich project (seeded) plus '
             'a history of edits to the source tree interleaved with '
             'regeneration steps (backend-driven, explicit, lazy); distinct = '
             'distinct (project feature set, backend, clock mode, sequence of '
             'operation kinds); non-trivial = at least one bfg9000 launch by '
             'the backend or one rebuilt step happened after the first edit'),
    'real': ['bfg9000 from /repo working tree', 'GNU make 4.3', '/bin/sh',
             'bfg9000-depfixer'],
    'stubs': ['cc/c++/ar (hashing stubs)', 'clock (logical mtimes)',
              'touch (tick-stamping)', 'uuid4', 'directory enumeration order '
              '(sorted)'],
    'assumptions': [
        'edits never tie in mtime with build outputs (an edit is stamped '
        'strictly after everything that exists)',
        'no edits while the backend runs',
        'mopack / package resolution not exercised (--no-resolve-packages)',
        'directories searched with cache=False are not restructured',
    ],
}


def op_kind(op):
    if op[0] == 'bfg':
        return 'bfg:' + ('lazy' if '--lazy' in op[1] else 'full')
    if op[0] == 'write':
        return 'write' + os.path.splitext(op[1])[1]
    return op[0]


def make_replay(case):
    return {'property': PROP, 'seed': case['seed'],
            'project': case['proj'].to_json(), 'cfg': case['cfg'],
            'ops': case['ops']}


def summarise(case):
    hist = case['hist']
    proj, cfg = case['proj'], case['cfg']
    kinds = [op_kind(o) for o in case['ops']]
    shape = '|'.join([proj.backend, cfg['clock_mode'],
                      ','.join(sorted(proj.features)), ','.join(kinds)])
    import hashlib
    return {
        'seed': case['seed'],
        'violations': [v.to_json() for v in hist.violations],
        'stats': dict(hist.sim.stats, **{'backend.' + proj.backend: 1}),
        'nontrivial': hist.nontrivial,
        'shape': hashlib.sha256(shape.encode()).hexdigest()[:16],
        'digest': hashlib.sha256(repr(hist.trace).encode()).hexdigest()[:16],
        'ticks': 0,
        'sample': {'seed': case['seed'], 'backend': proj.backend,
                   'clock_mode': cfg['clock_mode'],
                   'features': sorted(proj.features),
                   'script': proj.script_text('build.bfg').split('\n'),
                   'ops': [o if o[0] != 'write' else o[:2] + ['...']
                           for o in case['ops']]},
        'sets': {'schedules': sorted(getattr(hist.sim, 'schedules', []))},
        'replay': make_replay(case) if hist.violations else None,
        'wall': case.get('wall'),
    }


def replay(rep, root):
    proj = G.Project.from_json(rep['project'])
    hist = execute(root, proj, rep['cfg'], rep['ops'])
    return [v.to_json() for v in hist.violations]


def minimise(rep, v, root, deadline):
    from .minimise import minimise_replay

    def run(r):
        try:
            return replay(r, root)
        except HarnessError:
            return []
    return minimise_replay(rep, v, run, deadline)
