"""Check driver: ./check <PROP> [--tier quick|thorough] [--replay FILE]

Exit 0: property held on everything explored (KNOWN-FINDING lines allowed).
Exit 1: `VIOLATION property=<id> replay=<path>` printed for each new violation.
Exit 2: harness error (no VIOLATION line; a broken check is not a finding).
"""

import argparse
import concurrent.futures as cf
import faulthandler
import hashlib
import importlib
import json
import multiprocessing
import os
import shutil
import sys
import time
import traceback

HERE = os.path.dirname(os.path.abspath(__file__))
VERIF = os.path.dirname(HERE)

MODULES = {
    'C03': 'c03', 'C05': 'c05', 'C07': 'c07', 'C08': 'c08', 'C09': 'c09',
    'C10': 'c10', 'C13': 'c13', 'C20': 'c20',
}

TIERS = {
    # budget in seconds of wall clock for the seeded search, per property
    'quick': {'budget': 75, 'min_cases': 16},
    'thorough': {'budget': 900, 'min_cases': 64},
}


def derive_seed(base, prop, index):
    h = hashlib.sha256('{}:{}:{}'.format(base, prop, index).encode())
    return int.from_bytes(h.digest()[:6], 'big')


def reexec_pinned():
    if os.environ.get('BFGSIM_HASHSEED_FREE'):
        return
    if os.environ.get('PYTHONHASHSEED') != '0':
        env = dict(os.environ)
        env['PYTHONHASHSEED'] = '0'
        env['PYTHONDONTWRITEBYTECODE'] = '1'
        os.execve(sys.executable, [sys.executable, '-m', 'bfgsim.check'] +
                  sys.argv[1:], env)


def _case_worker(args):
    modname, seed, root, params = args
    faulthandler.dump_traceback_later(params.get('case_timeout', 300) + 30,
                                      exit=True)
    try:
        mod = importlib.import_module('bfgsim.' + modname)
        t0 = time.monotonic()
        from . import world as _world
        _world.TICKS[0] = 0
        case = mod.run_case(seed, root, params)
        case['wall'] = time.monotonic() - t0
        case['seed'] = seed
        out = mod.summarise(case)
        out['ticks'] = _world.TICKS[0]
        return ('ok', out)
    except Exception:
        return ('harness', {'seed': seed, 'error': traceback.format_exc()})
    finally:
        faulthandler.cancel_dump_traceback_later()
        shutil.rmtree(root, ignore_errors=True)


def tree_fingerprint():
    """Fingerprint of the bfg9000 sources a check runs against: a check whose
    subject changes while it runs mixes two trees (the preloaded modules of
    the forked cases and the fresh interpreters the backend launches) and is
    not believed."""
    repo = os.environ.get('BFGSIM_REPO') or '/repo'
    h = hashlib.sha256()
    top = os.path.join(repo, 'bfg9000')
    for base, dirs, files in os.walk(top):
        dirs[:] = sorted(d for d in dirs if d != '__pycache__')
        for f in sorted(files):
            if f.endswith('.py'):
                p = os.path.join(base, f)
                try:
                    with open(p, 'rb') as fh:
                        h.update(p.encode() + b'\0' + fh.read())
                except OSError:
                    pass
    return h.hexdigest()[:16]


def match_known(sig, known):
    for k in known:
        if k.get('status') != 'known':
            continue
        ks = k['signature']
        if ks['property'] == sig['property'] and \
           ks['oracle'] == sig['oracle'] and \
           set(ks.get('features', [])) <= set(sig['features']):
            return k
    return None


def load_known():
    p = os.path.join(VERIF, 'known_findings.json')
    try:
        with open(p) as f:
            return json.load(f)['findings']
    except FileNotFoundError:
        return []


class Check:
    def __init__(self, prop, tier, seed, jobs, budget=None):
        self.prop = prop
        self.tier = tier
        self.seed = seed
        self.jobs = jobs
        self.mod = importlib.import_module('bfgsim.' + MODULES[prop])
        self.params = dict(getattr(self.mod, 'PARAMS', {}).get(tier, {}))
        self.budget = budget or self.params.get('budget',
                                                TIERS[tier]['budget'])
        from . import world as W
        # (fixed width: the length of the world's path decides how many
        # buffer flushes - numbered mutation events - a written file has)
        self.scratch = os.path.join(W.scratch_root(), prop,
                                    'r{:07d}'.format(os.getpid() % 10**7))
        self.known = [k for k in load_known() if k['property'] == prop]
        self.violations = []       # new ones
        self.known_seen = {}
        self.harness_errors = []
        self.cases = []
        self.lines = []

    def out(self, line):
        print(line, flush=True)
        self.lines.append(line)

    # -- pinned replays -----------------------------------------------------
    def run_pinned(self):
        for k in self.known:
            rp = k.get('replay')
            if not rp:
                continue
            path = os.path.join(VERIF, rp)
            with open(path) as f:
                rep = json.load(f)
            root = os.path.join(self.scratch, 'p' + '0' * 15)
            try:
                vios = self.mod.replay(rep, root)
            finally:
                shutil.rmtree(root, ignore_errors=True)
            want = rep.get('violation')
            hit = [v for v in vios
                   if v['property'] == want['property'] and
                   v['oracle'] == want['oracle']]
            if k['status'] == 'known':
                if hit:
                    self.known_seen[k['id']] = k
                else:
                    self.out('note: known finding {} no longer reproduces '
                             'from its pinned replay'.format(k['id']))
                other = [v for v in vios if v not in hit]
            else:   # fixed: must stay fixed
                other = vios
            for v in other:
                self.report_violation(v, rep, pinned=path)

    # -- search -----------------------------------------------------------------
    def search(self):
        """One forked process (own session) per case, at most `jobs` at a
        time; a case that exceeds its wall cap is killed with its whole
        process group and counted as a harness error, never as a verdict."""
        import pickle
        import signal
        t_end = time.monotonic() + self.budget
        params = dict(self.params)
        cap = params.get('case_timeout', 300)
        min_cases = self.params.get('min_cases',
                                    TIERS[self.tier]['min_cases'])
        os.makedirs(self.scratch, exist_ok=True)
        running = {}       # pid -> (seed, start, result path)
        index = 0

        def spawn():
            nonlocal index
            s = derive_seed(self.seed, self.prop, index)
            index += 1
            root = os.path.join(self.scratch, 'w{:015d}'.format(s))
            res = os.path.join(self.scratch, 'r{}.pkl'.format(s))
            sys.stdout.flush()
            sys.stderr.flush()
            pid = os.fork()
            if pid == 0:
                code = 1
                try:
                    os.setsid()
                    out = _case_worker((MODULES[self.prop], s, root, params))
                    with open(res + '.tmp', 'wb') as f:
                        pickle.dump(out, f)
                    os.rename(res + '.tmp', res)
                    code = 0
                except BaseException:   # noqa
                    traceback.print_exc()
                finally:
                    os._exit(code)
            running[pid] = (s, time.monotonic(), res, root)

        def want_more():
            if len(self.harness_errors) >= 5:
                return False
            # (cases that only show listed known findings do not count)
            if len([c for c in self.cases
                    if any(match_known(v, self.known) is None
                           for v in c['violations'])]) >= 40:
                return False
            return (time.monotonic() < t_end or
                    len(self.cases) + len(running) < min_cases)

        while True:
            while len(running) < self.jobs and want_more():
                spawn()
            if not running:
                break
            progressed = False
            for pid in list(running):
                s, t0, res, root = running[pid]
                got, status = os.waitpid(pid, os.WNOHANG)
                if got:
                    progressed = True
                    del running[pid]
                    try:
                        with open(res, 'rb') as f:
                            kind, data = pickle.load(f)
                        os.remove(res)
                    except Exception:
                        kind, data = 'harness', {
                            'seed': s, 'error': 'case process died with '
                            'status {}'.format(status)}
                    if kind == 'harness':
                        self.harness_errors.append(data)
                    else:
                        self.cases.append(data)
                elif time.monotonic() - t0 > cap:
                    progressed = True
                    try:
                        os.killpg(pid, signal.SIGKILL)
                    except ProcessLookupError:
                        pass
                    os.waitpid(pid, 0)
                    del running[pid]
                    shutil.rmtree(root, ignore_errors=True)
                    self.harness_errors.append({
                        'seed': s, 'error': 'case exceeded its wall cap of '
                        '{} s and was killed'.format(cap)})
            if not progressed:
                time.sleep(0.02)

    # -- violations ---------------------------------------------------------------
    def report_violation(self, v, replay, pinned=None):
        k = match_known(v, self.known)
        if k is not None:
            self.known_seen[k['id']] = k
            return
        d = os.path.join(VERIF, 'replays', self.prop)
        os.makedirs(d, exist_ok=True)
        name = 'viol-{}-{}.json'.format(
            replay.get('seed', 'x'),
            hashlib.sha256(json.dumps(v, sort_keys=True).encode())
            .hexdigest()[:8])
        path = os.path.join(d, name)
        rep = dict(replay)
        rep['violation'] = v
        with open(path, 'w') as f:
            json.dump(rep, f, indent=1, sort_keys=True)
        self.violations.append((v, path))

    def process_cases(self):
        minimise = getattr(self.mod, 'minimise', None)
        budget_end = time.monotonic() + 240
        seen_sigs = set()
        for c in sorted(self.cases, key=lambda c: c['seed']):
            for v in c['violations']:
                sig = json.dumps([v['property'], v['oracle'], v['features']])
                rep = c['replay']
                if match_known(v, self.known) is not None:
                    self.report_violation(v, rep)
                    continue
                if len(self.violations) >= 12:
                    self.suppressed = getattr(self, 'suppressed', 0) + 1
                    continue
                if minimise and sig not in seen_sigs and \
                   len(seen_sigs) < 4 and time.monotonic() < budget_end:
                    root = os.path.join(self.scratch, 'm' + '0' * 15)
                    try:
                        rep2, v2 = minimise(rep, v, root,
                                            deadline=min(
                                                budget_end,
                                                time.monotonic() + 90))
                        if rep2 is not None:
                            rep2['unminimised_ops'] = len(rep.get('ops', []))
                            rep2['unminimised'] = {
                                'ops': rep.get('ops'),
                                'project': rep.get('project'),
                                'violation': v}
                            rep, v = rep2, v2
                    except Exception:
                        self.out('note: minimisation failed: ' +
                                 traceback.format_exc(limit=2))
                    finally:
                        shutil.rmtree(root, ignore_errors=True)
                seen_sigs.add(sig)
                self.report_violation(v, rep)

    # -- evidence -------------------------------------------------------------------
    def write_evidence(self, wall):
        cases = self.cases
        shapes = {c['shape'] for c in cases if c['nontrivial']}
        stats = {}
        for c in cases:
            for k, n in c['stats'].items():
                stats[k] = stats.get(k, 0) + n
        samples = [c['sample'] for c in cases[:3]]
        describe = getattr(self.mod, 'EVIDENCE', {})
        ev = {
            'property_id': self.prop,
            'tier': self.tier,
            'seed': self.seed,
            'level': describe.get('level', 'exploration'),
            'wall_s': round(wall, 2),
            'violations': len(self.violations),
            'coverage': {
                'evaluations': len(cases),
                'distinct_nontrivial': len(shapes),
                'rule': describe.get('rule', ''),
                'samples': samples,
                'runs_per_hour': int(len(cases) * 3600 / max(wall, 1e-3)),
                'ticks_simulated': sum(c.get('ticks', 0) for c in cases),
                'counters': dict(sorted(stats.items())),
                'known_findings_seen': sorted(self.known_seen),
                'harness_errors': len(self.harness_errors),
                'jobs': self.jobs,
                'tree_fingerprint': getattr(self, 'tree0', None),
                'determinism_selftest': getattr(self, 'selftest', None),
                'real_components': describe.get('real', []),
                'stub_components': describe.get('stubs', []),
                'exhaustive': False,
            },
            'assumptions': describe.get('assumptions', []),
        }
        sets = {}
        for c in cases:
            for k, vals in (c.get('sets') or {}).items():
                sets.setdefault(k, set()).update(vals)
        for k, vals in sets.items():
            ev['coverage']['distinct_' + k] = len(vals)
        extra = getattr(self.mod, 'evidence_extra', None)
        if extra:
            ev['coverage'].update(extra(cases))
        os.makedirs(os.path.join(VERIF, 'evidence'), exist_ok=True)
        with open(os.path.join(VERIF, 'evidence',
                               '{}.json'.format(self.prop)), 'w') as f:
            json.dump(ev, f, indent=1, sort_keys=True)

    def determinism_selftest(self):
        """Same case seeds again, in a fresh harness interpreter with another
        PYTHONHASHSEED and a different worker count: the behaviour digests
        (operations, exit codes, executed steps, content digests, bfg9000
        outcomes, schedule traces) must be identical."""
        import subprocess
        k = 4 if self.tier == 'quick' else 12
        first = sorted(self.cases, key=lambda c: c['seed'])
        mine = {}
        for i in range(min(len(self.cases) + len(self.harness_errors),
                           k * 3)):
            s = derive_seed(self.seed, self.prop, i)
            c = next((c for c in self.cases if c['seed'] == s), None)
            if c is not None and c.get('digest') and not c['violations']:
                mine[s] = c['digest']
            if len(mine) >= k:
                break
        if not mine:
            self.selftest = {'seeds': 0, 'variants': 0, 'mismatches': 0}
            return
        env = dict(os.environ)
        env.update({'BFGSIM_HASHSEED_FREE': '1', 'PYTHONHASHSEED': '12345',
                    'PYTHONDONTWRITEBYTECODE': '1',
                    'BFGSIM_JOBS': '3', 'VERIF_TIER': self.tier})
        cmd = [sys.executable, '-m', 'bfgsim.check', self.prop, '--tier',
               self.tier, '--digests', ','.join(str(s) for s in mine)]
        if self.params.get('chars') is not None:
            env['BFGSIM_CHARS'] = json.dumps(self.params['chars'])
        p = subprocess.run(cmd, cwd=VERIF, env=env, capture_output=True,
                           text=True, timeout=900)
        other = {}
        for line in p.stdout.split('\n'):
            if line.startswith('DIGESTS '):
                other = {int(k): v for k, v in
                         json.loads(line[len('DIGESTS '):]).items()}
        bad = [s for s in mine if other.get(s) != mine[s]]
        self.selftest = {'seeds': len(mine), 'variants': 2,
                         'mismatches': len(bad),
                         'how': 'second pass in a fresh interpreter with '
                                'PYTHONHASHSEED=12345 and 3 workers'}
        if bad:
            self.harness_errors.append({
                'seed': bad[0], 'error': 'determinism self-test: digest of '
                'case seed {} differs between two runs ({} vs {}); stderr '
                'of the second pass:\n{}'.format(
                    bad[0], mine[bad[0]], other.get(bad[0]),
                    p.stderr[-1500:])})

    def run(self):
        t0 = time.monotonic()
        self.tree0 = tree_fingerprint()
        self.out('check {} tier={} VERIF_SEED={} jobs={} budget={}s'.format(
            self.prop, self.tier, self.seed, self.jobs, self.budget))
        try:
            if self.prop in ('C03', 'C05', 'C07', 'C08', 'C09', 'C10'):
                # the reference Ninja is part of the trusted base of these
                from . import refninja_selftest
                bad = refninja_selftest.run_all()
                if bad:
                    self.harness_errors.append({
                        'seed': None, 'error': 'reference Ninja self-tests '
                        'failed: ' + '; '.join(bad)})
            selftest = getattr(self.mod, 'selftest', None)
            if selftest:
                selftest(self)
            self.run_pinned()
            self.search()
            self.determinism_selftest()
            self.process_cases()
        finally:
            shutil.rmtree(self.scratch, ignore_errors=True)
        wall = time.monotonic() - t0
        if tree_fingerprint() != self.tree0:
            self.harness_errors.append({
                'seed': None, 'error': 'the bfg9000 source tree changed '
                'while the check was running; results are not valid'})
        self.write_evidence(wall)
        for k in self.known_seen.values():
            self.out('KNOWN-FINDING: property={} {}'.format(
                self.prop, k['what']))
        for v, path in self.violations:
            self.out('VIOLATION property={} replay={}'.format(self.prop, path))
            self.out('  oracle={} features={}'.format(v['oracle'],
                                                      v['features']))
            self.out('  ' + v['detail'].replace('\n', '\n  ')[:1500])
        with open(os.path.join(VERIF, 'evidence',
                               '{}.json'.format(self.prop))) as f:
            cov = json.load(f)['coverage']
        self.out('{}: {} cases, {} evaluations, {} nontrivial-distinct, {} '
                 'violations{}, {} known findings seen, {} harness errors, '
                 '{:.1f}s'.format(
                     self.prop, len(self.cases), cov['evaluations'],
                     cov['distinct_nontrivial'], len(self.violations),
                     ' (+{} more not written out)'.format(self.suppressed)
                     if getattr(self, 'suppressed', 0) else '',
                     len(self.known_seen), len(self.harness_errors), wall))
        if self.harness_errors:
            for h in self.harness_errors[:3]:
                self.out('HARNESS-ERROR seed={}:\n{}'.format(
                    h['seed'], h['error'][-3000:]))
        if self.violations:
            return 1
        if self.harness_errors or not self.cases:
            return 2
        return 0


def main(argv=None):
    reexec_pinned()
    ap = argparse.ArgumentParser()
    ap.add_argument('prop')
    ap.add_argument('--tier', default=os.environ.get('VERIF_TIER', 'quick'),
                    choices=['quick', 'thorough'])
    ap.add_argument('--replay')
    ap.add_argument('--digests')
    ap.add_argument('--budget', type=float,
                    default=float(os.environ.get('BFGSIM_BUDGET_S', 0)) or
                    None)
    ap.add_argument('--jobs', type=int,
                    default=int(os.environ.get('BFGSIM_JOBS', 0)) or
                    min(16, os.cpu_count() or 1))
    args = ap.parse_args(argv)
    raw = os.environ.get('VERIF_SEED', '1') or '1'
    try:
        seed = int(raw)
    except ValueError:
        seed = int.from_bytes(hashlib.sha256(raw.encode()).digest()[:6],
                              'big')
    repo = os.environ.get('BFGSIM_REPO')
    if repo:
        sys.path.insert(0, repo)
    from . import bfgrun
    where = bfgrun.preload()
    print('bfg9000 loaded from {}'.format(where), flush=True)

    if args.digests:
        chk = Check(args.prop, args.tier, seed, args.jobs, 1)
        if os.environ.get('BFGSIM_CHARS'):
            chk.params['chars'] = json.loads(os.environ['BFGSIM_CHARS'])
        seeds = [int(x) for x in args.digests.split(',') if x]
        out = {}
        os.makedirs(chk.scratch, exist_ok=True)
        import concurrent.futures as cf2
        ctx = multiprocessing.get_context('fork')
        with cf2.ProcessPoolExecutor(max_workers=args.jobs,
                                     mp_context=ctx) as pool:
            futs = {s: pool.submit(_case_worker, (
                MODULES[args.prop], s,
                os.path.join(chk.scratch, 'w{:015d}'.format(s)), chk.params))
                for s in seeds}
            for s, f in futs.items():
                kind, data = f.result()
                out[s] = data.get('digest') if kind == 'ok' else \
                    'harness:' + data['error'][-300:]
        shutil.rmtree(chk.scratch, ignore_errors=True)
        print('DIGESTS ' + json.dumps(out))
        return 0

    if args.replay:
        mod = importlib.import_module('bfgsim.' + MODULES[args.prop])
        with open(args.replay) as f:
            rep = json.load(f)
        from . import world as W
        # every world of every mode has a root of the same length: the
        # numbered flush events of a written file depend on the length of
        # the paths it mentions
        root = os.path.join(W.scratch_root(), args.prop,
                            'r{:07d}'.format(os.getpid() % 10**7),
                            'x' + '0' * 15)
        try:
            vios = mod.replay(rep, root)
        finally:
            shutil.rmtree(os.path.dirname(root), ignore_errors=True)
        want = rep.get('violation')
        for v in vios:
            print('VIOLATION property={} replay={}'.format(args.prop,
                                                           args.replay))
            print('  oracle={} features={}'.format(v['oracle'],
                                                   v['features']))
            print('  ' + v['detail'].replace('\n', '\n  ')[:3000])
        if want and not any(v['oracle'] == want['oracle'] for v in vios):
            print('replay did not reproduce the recorded violation '
                  '(oracle={})'.format(want['oracle']))
        return 1 if vios else 0

    chk = Check(args.prop, args.tier, seed, args.jobs, args.budget)
    return chk.run()


if __name__ == '__main__':
    sys.exit(main())
