"""Reference Ninja: manifest evaluator + seeded executor.

There is no ninja binary in the image; this implements, from the Ninja manual
and the behaviour of manifest_parser / graph / build / depfile_parser, what
bfg9000's generated manifests need (and a little more, see DESIGN.md appendix
A).  The executor is where the *schedule* lives: every edge is a start event
(inputs are checked to exist and are fingerprinted) and a finish event (the
command runs through /bin/sh, outputs appear); a seeded PRNG picks the next
event with up to J edges in flight, so consumers can start before unrelated
producers finish, and a producer that writes a file an in-flight edge has
already read is reported as a race."""

import hashlib
import json
import os
import random
import re
import subprocess
import sys

LOG = '.ninja_log.json'
DEPS = '.ninja_deps.json'


class NinjaError(Exception):
    pass


# -- lexing / evaluation --------------------------------------------------------

VAR_SIMPLE = re.compile(r'[A-Za-z0-9_-]+')
VAR_BRACED = re.compile(r'\{([A-Za-z0-9_.-]+)\}')


def expand(text, lookup):
    out = []
    i, n = 0, len(text)
    while i < n:
        c = text[i]
        if c != '$':
            out.append(c)
            i += 1
            continue
        i += 1
        if i >= n:
            raise NinjaError('unexpected end of string after $')
        c = text[i]
        if c in '$ :':
            out.append(c)
            i += 1
        elif c == '\n':
            i += 1
            while i < n and text[i] in ' \t':
                i += 1
        elif c == '{':
            m = VAR_BRACED.match(text, i)
            if not m:
                raise NinjaError('bad ${ in ' + text)
            out.append(lookup(m.group(1)))
            i = m.end()
        else:
            m = VAR_SIMPLE.match(text, i)
            if not m:
                raise NinjaError('bad $-escape in ' + text)
            out.append(lookup(m.group(0)))
            i = m.end()
    return ''.join(out)


def split_paths(text):
    """Tokenise the path part of a build/default line (unexpanded tokens);
    returns a list of tokens where '|', '||' and ':' are separators."""
    toks, cur = [], []
    i, n = 0, len(text)

    def flush():
        if cur:
            toks.append(('path', ''.join(cur)))
            del cur[:]
    while i < n:
        c = text[i]
        if c == '$':
            if i + 1 < n and text[i + 1] == '\n':
                i += 2
                while i < n and text[i] in ' \t':
                    i += 1
                continue
            cur.append(text[i:i + 2])
            i += 2
        elif c == ' ':
            flush()
            i += 1
        elif c == ':':
            flush()
            toks.append(('colon', ':'))
            i += 1
        elif c == '|':
            flush()
            if i + 1 < n and text[i + 1] == '|':
                toks.append(('sep', '||'))
                i += 2
            else:
                toks.append(('sep', '|'))
                i += 1
        else:
            cur.append(c)
            i += 1
    flush()
    return toks


def canon(path):
    if path == '':
        return path
    p = os.path.normpath(path)
    return p


def shell_escape(s):
    if re.fullmatch(r'[A-Za-z0-9_+\-./]+', s):
        return s
    return "'" + s.replace("'", "'\\''") + "'"


class Rule:
    def __init__(self, name):
        self.name = name
        self.bindings = {}


class Edge:
    def __init__(self, rule):
        self.rule = rule
        self.outputs = []
        self.explicit = []
        self.implicit = []
        self.order_only = []
        self.bindings = {}
        self.dyn_deps = []        # discovered through depfile / deps log
        self.id = None

    @property
    def phony(self):
        return self.rule.name == 'phony'

    def all_inputs(self):
        return self.explicit + self.implicit + self.dyn_deps


class Manifest:
    def __init__(self, builddir, filename='build.ninja'):
        self.builddir = builddir
        self.filename = filename
        self.vars = {}
        self.rules = {'phony': Rule('phony')}
        self.edges = []
        self.producer = {}
        self.defaults = []
        self.pools = {'console': 1}
        self.parse(os.path.join(builddir, filename))

    # scope helpers
    def file_lookup(self, name):
        return self.vars.get(name, '')

    def logical_lines(self, text):
        """Yield (indent, line) with $-newline continuations joined."""
        lines = text.split('\n')
        i = 0
        while i < len(lines):
            line = lines[i]
            i += 1
            stripped = line.lstrip(' ')
            if not stripped or stripped.startswith('#'):
                continue
            # continuation: an odd number of trailing $ continues the line
            while True:
                m = re.search(r'\$+$', line)
                if m and len(m.group(0)) % 2 == 1 and i < len(lines):
                    line = line[:-1] + lines[i].lstrip(' \t')
                    i += 1
                else:
                    break
            indent = len(line) - len(line.lstrip(' '))
            yield indent, line.strip(' ')

    def parse(self, path):
        with open(path) as f:
            text = f.read()
        cur = None          # ('rule', Rule) | ('build', Edge) | ('pool', name)
        for indent, line in self.logical_lines(text):
            if indent > 0 and cur is not None:
                m = re.match(r'([A-Za-z0-9_.-]+)\s*=\s*(.*)$', line)
                if not m:
                    raise NinjaError('expected binding: ' + line)
                k, v = m.group(1), m.group(2)
                if cur[0] == 'rule':
                    cur[1].bindings[k] = v          # kept unexpanded
                elif cur[0] == 'build':
                    e = cur[1]
                    e.bindings[k] = expand(v, lambda n, e=e: e.bindings.get(
                        n, self.file_lookup(n)))
                elif cur[0] == 'pool':
                    if k == 'depth':
                        self.pools[cur[1]] = int(expand(v, self.file_lookup))
                continue
            cur = None
            if line.startswith('rule '):
                name = line[5:].strip()
                if name in self.rules:
                    raise NinjaError('duplicate rule ' + name)
                r = Rule(name)
                self.rules[name] = r
                cur = ('rule', r)
            elif line.startswith('build '):
                cur = ('build', self.parse_build(line[6:]))
            elif line.startswith('default '):
                for kind, tok in split_paths(line[8:]):
                    if kind == 'path':
                        self.defaults.append(canon(expand(
                            tok, self.file_lookup)))
            elif line.startswith('pool '):
                cur = ('pool', line[5:].strip())
                self.pools.setdefault(cur[1], 1)
            elif line.startswith('include ') or line.startswith('subninja '):
                raise NinjaError('include/subninja not supported')
            else:
                m = re.match(r'([A-Za-z0-9_.-]+)\s*=\s*(.*)$', line)
                if not m:
                    raise NinjaError('syntax error: ' + line)
                self.vars[m.group(1)] = expand(m.group(2), self.file_lookup)
        for d in self.defaults:
            if d not in self.producer:
                raise NinjaError('unknown default target ' + d)

    def parse_build(self, text):
        toks = split_paths(text)
        outs, i = [], 0
        while i < len(toks) and toks[i][0] == 'path':
            outs.append(toks[i][1])
            i += 1
        # implicit outputs: `out | implicit_out : rule`
        if i < len(toks) and toks[i] == ('sep', '|'):
            i += 1
            while i < len(toks) and toks[i][0] == 'path':
                outs.append(toks[i][1])
                i += 1
        if i >= len(toks) or toks[i][0] != 'colon':
            raise NinjaError('expected : in build line: ' + text)
        i += 1
        if i >= len(toks) or toks[i][0] != 'path':
            raise NinjaError('expected rule name: ' + text)
        rname = toks[i][1]
        i += 1
        if rname not in self.rules:
            raise NinjaError('unknown build rule ' + rname)
        e = Edge(self.rules[rname])
        target = e.explicit
        for kind, tok in toks[i:]:
            if kind == 'sep':
                target = e.implicit if tok == '|' else e.order_only
            elif kind == 'path':
                target.append(canon(expand(tok, self.file_lookup)))
            else:
                raise NinjaError('unexpected : in ' + text)
        e.outputs = [canon(expand(o, self.file_lookup)) for o in outs]
        if not e.outputs:
            raise NinjaError('build line without outputs')
        for o in e.outputs:
            if o in self.producer:
                raise NinjaError('multiple rules generate ' + o)
            self.producer[o] = e
        e.id = len(self.edges)
        self.edges.append(e)
        return e

    def binding(self, edge, name, _depth=0, escape=None):
        # ninja evaluates `depfile`, `rspfile` and `dyndep` without shell
        # escaping of $in/$out (EdgeEnv::kDoNotEscape); everything else with
        if escape is None:
            escape = name not in ('depfile', 'rspfile', 'dyndep')
        esc = shell_escape if escape else (lambda p: p)
        if name in ('in', 'in_newline'):
            sep = ' ' if name == 'in' else '\n'
            return sep.join(esc(p) for p in edge.explicit)
        if name == 'out':
            return ' '.join(esc(p) for p in edge.outputs)
        if name in edge.bindings:
            return edge.bindings[name]
        if name in edge.rule.bindings:
            if _depth > 20:
                raise NinjaError('cycle in rule variables: ' + name)
            return expand(edge.rule.bindings[name],
                          lambda n: self.binding(edge, n, _depth + 1,
                                                 escape))
        return self.file_lookup(name)


# -- depfiles ----------------------------------------------------------------------

def parse_depfile(text):
    """-> list of (targets, deps).  Grammar as ninja's depfile_parser."""
    text = text.replace('\\\r\n', ' ').replace('\\\n', ' ')
    rules = []
    for line in text.split('\n'):
        if not line.strip():
            continue
        toks, cur, i, n = [], [], 0, len(line)
        seen_colon = False
        targets, deps = [], []

        def flush():
            if cur:
                (deps if seen_colon else targets).append(''.join(cur))
                del cur[:]
        while i < n:
            c = line[i]
            if c == '\\':
                j = i
                while j < n and line[j] == '\\':
                    j += 1
                nb = j - i
                nxt = line[j] if j < n else ''
                if nxt == ' ':
                    cur.append('\\' * (nb // 2))
                    if nb % 2:
                        cur.append(' ')
                        i = j + 1
                    else:
                        i = j
                elif nxt == '#' and nb % 2:
                    cur.append('\\' * (nb // 2) + '#')
                    i = j + 1
                elif nxt == ':' and nb % 2:
                    cur.append('\\' * (nb // 2) + ':')
                    i = j + 1
                else:
                    cur.append('\\' * nb)
                    i = j
            elif c == '$' and i + 1 < n and line[i + 1] == '$':
                cur.append('$')
                i += 2
            elif c in ' \t':
                flush()
                i += 1
            elif c == ':' and not seen_colon and \
                    (i + 1 == n or line[i + 1] in ' \t'):
                flush()
                seen_colon = True
                i += 1
            else:
                cur.append(c)
                i += 1
        flush()
        if seen_colon:
            rules.append((targets, deps))
    return rules


# -- build state ---------------------------------------------------------------------

def mtime(path):
    try:
        return os.stat(path).st_mtime_ns
    except OSError:
        return None


def fingerprint(path):
    try:
        st = os.stat(path)
    except OSError:
        return None
    if os.path.isdir(path):
        return ('d',)
    h = hashlib.sha256()
    try:
        with open(path, 'rb') as f:
            h.update(f.read())
    except OSError:
        return None
    return (st.st_size, h.hexdigest())


class Result:
    def __init__(self):
        self.status = 0
        self.output = ''
        self.inv = []
        self.steps = []
        self.schedule = []
        self.races = []
        self.missing_at_start = []
        self.ran_edges = []
        self.timed_out = False

    @property
    def ok(self):
        return self.status == 0


class Builder:
    def __init__(self, world, env, seed=0, jobs=1, out=None):
        self.world = world
        self.cwd = world.build
        self.env = env
        self.rng = random.Random(seed)
        self.jobs = jobs
        self.result = out or Result()
        self.log = self._load(LOG)
        self.deps = self._load(DEPS)

    def _load(self, name):
        try:
            with open(os.path.join(self.cwd, name)) as f:
                return json.load(f)
        except (OSError, ValueError):
            return {}

    def _save(self):
        for name, data in ((LOG, self.log), (DEPS, self.deps)):
            with open(os.path.join(self.cwd, name), 'w') as f:
                json.dump(data, f, sort_keys=True)

    def say(self, text):
        self.result.output += text

    def p(self, rel):
        return rel if os.path.isabs(rel) else os.path.join(self.cwd, rel)

    # -- dirtiness ------------------------------------------------------------
    def load_dyn_deps(self, m, edge):
        edge.dyn_deps = []
        deps_kind = m.binding(edge, 'deps')
        depfile = m.binding(edge, 'depfile')
        out0 = edge.outputs[0]
        if deps_kind:
            rec = self.deps.get(out0)
            if rec is None:
                return 'no-deps-record'
            om = mtime(self.p(out0))
            if om is not None and rec['mtime'] < om:
                return 'stale-deps-record'
            edge.dyn_deps = [canon(d) for d in rec['deps']]
        elif depfile:
            try:
                with open(self.p(depfile)) as f:
                    rules = parse_depfile(f.read())
            except OSError:
                return None
            for targets, deps in rules[:1]:
                edge.dyn_deps = [canon(d) for d in deps]
        return None

    def compute_dirty(self, m, targets):
        """-> (set of dirty edge ids in dependency order list, error)."""
        dirty = {}
        order = []
        state = {}          # edge id -> 'visiting' | 'done'

        def visit_node(path, via_dyn=False, needed_by=None):
            e = m.producer.get(path)
            if e is None:
                if mtime(self.p(path)) is None and not via_dyn:
                    raise NinjaError("'{}', needed by '{}', missing and no "
                                     "known rule to make it".format(
                                         path, needed_by))
                return mtime(self.p(path)) is None and via_dyn
            return visit_edge(e)

        def visit_edge(e):
            if state.get(e.id) == 'done':
                return dirty[e.id]
            if state.get(e.id) == 'visiting':
                raise NinjaError('dependency cycle through ' + e.outputs[0])
            state[e.id] = 'visiting'
            is_dirty = False
            why = None
            if not e.phony:
                why = self.load_dyn_deps(m, e)
                if why:
                    is_dirty = True
            for group, dyn in ((e.explicit, False), (e.implicit, False),
                               (e.dyn_deps, True)):
                for i in group:
                    if visit_node(i, dyn, e.outputs[0]):
                        is_dirty = True
            for i in e.order_only:
                visit_node(i, False, e.outputs[0])
            if not is_dirty:
                if e.phony:
                    if not e.all_inputs() and \
                       mtime(self.p(e.outputs[0])) is None:
                        is_dirty = True
                else:
                    newest = 0
                    for i in e.all_inputs():
                        t = mtime(self.p(i))
                        if t is not None and t > newest:
                            newest = t
                    generator = bool(m.binding(e, 'generator'))
                    cmd_hash = hashlib.sha256(
                        m.binding(e, 'command').encode()).hexdigest()[:16]
                    for o in e.outputs:
                        t = mtime(self.p(o))
                        if t is None:
                            is_dirty, why = True, 'missing ' + o
                        elif t < newest:
                            is_dirty, why = True, 'older than input'
                        elif not generator:
                            if self.log.get(o) != cmd_hash:
                                is_dirty, why = True, 'command changed'
            dirty[e.id] = is_dirty
            state[e.id] = 'done'
            order.append(e)
            return is_dirty

        for t in targets:
            if t not in m.producer:
                if mtime(self.p(t)) is None:
                    raise NinjaError("unknown target '{}'".format(t))
                continue
            visit_edge(m.producer[t])
        return [e for e in order if dirty[e.id]]

    # -- execution ---------------------------------------------------------------
    def run_command(self, m, e):
        cmd = m.binding(e, 'command')
        desc = m.binding(e, 'description') or cmd
        self.say('[run] {}\n'.format(desc))
        for o in e.outputs:
            d = os.path.dirname(self.p(o))
            if d and not os.path.isdir(d):
                os.makedirs(d, exist_ok=True)
        p = subprocess.Popen(['/bin/sh', '-c', cmd], cwd=self.cwd,
                             env=self.env, stdout=subprocess.PIPE,
                             stderr=subprocess.STDOUT,
                             stdin=subprocess.DEVNULL,
                             start_new_session=True)
        try:
            out, _ = p.communicate(timeout=120)
        except subprocess.TimeoutExpired:
            import signal
            os.killpg(p.pid, signal.SIGKILL)
            out, _ = p.communicate()
            self.result.timed_out = True
        out = out.decode(errors='replace')
        deps_kind = m.binding(e, 'deps')
        if deps_kind == 'msvc':
            kept = []
            prefix = m.binding(e, 'msvc_deps_prefix') or \
                'Note: including file: '
            found = []
            for line in out.split('\n'):
                if line.startswith(prefix):
                    found.append(line[len(prefix):].strip())
                else:
                    kept.append(line)
            out = '\n'.join(kept)
        self.say(out)
        self.world.normalise()
        if p.returncode != 0:
            self.say('FAILED: {}\n{}\n'.format(' '.join(e.outputs), cmd))
            return False
        # deps
        depfile = m.binding(e, 'depfile')
        if deps_kind == 'gcc' and depfile:
            try:
                with open(self.p(depfile)) as f:
                    rules = parse_depfile(f.read())
                os.remove(self.p(depfile))
            except OSError:
                rules = []
            deps = []
            for targets, ds in rules:
                deps += ds
            self.deps[e.outputs[0]] = {
                'mtime': mtime(self.p(e.outputs[0])) or 0, 'deps': deps}
        elif deps_kind == 'msvc':
            self.deps[e.outputs[0]] = {
                'mtime': mtime(self.p(e.outputs[0])) or 0, 'deps': found}
        if not m.binding(e, 'generator'):
            h = hashlib.sha256(cmd.encode()).hexdigest()[:16]
            for o in e.outputs:
                self.log[o] = h
        return True

    def execute(self, m, todo):
        """Seeded event scheduler over the dirty edges `todo`."""
        res = self.result
        todo_ids = {e.id for e in todo}
        done, failed = set(), False
        inflight = {}           # edge id -> {'edge', 'fp': {path: fp}}
        started = set()

        def producers_pending(e):
            for i in e.all_inputs() + e.order_only:
                pe = m.producer.get(i)
                if pe is not None and pe.id in todo_ids and \
                   pe.id not in done:
                    return True
            return False

        def pool_of(e):
            return m.binding(e, 'pool')

        while True:
            ready = [e for e in todo if e.id not in started and
                     not producers_pending(e)]
            can_start = []
            if not failed and len(inflight) < self.jobs:
                for e in ready:
                    pool = pool_of(e)
                    if pool:
                        depth = m.pools.get(pool, 1)
                        used = sum(1 for x in inflight.values()
                                   if pool_of(x['edge']) == pool)
                        if used >= depth:
                            continue
                    can_start.append(e)
            events = [('start', e) for e in can_start] + \
                [('finish', x['edge']) for x in inflight.values()]
            if not events:
                break
            kind, e = self.rng.choice(sorted(events,
                                             key=lambda x: (x[0], x[1].id)))
            res.schedule.append([kind, e.outputs[0]])
            if kind == 'start':
                started.add(e.id)
                if e.phony:
                    done.add(e.id)
                    continue
                fps = {}
                for i in e.all_inputs():
                    fp = fingerprint(self.p(i))
                    pe = m.producer.get(i)
                    if fp is None and pe is not None and not pe.phony:
                        res.missing_at_start.append([e.outputs[0], i])
                    fps[i] = fp
                inflight[e.id] = {'edge': e, 'fp': fps}
            else:
                info = inflight.pop(e.id)
                # an input that changed while this edge was in flight is a
                # read/write race between two steps
                for i, fp in info['fp'].items():
                    if fingerprint(self.p(i)) != fp:
                        res.races.append([e.outputs[0], i])
                ok = self.run_command(m, e)
                res.ran_edges.append(e.outputs[0])
                if ok:
                    done.add(e.id)
                else:
                    failed = True
        self._save()
        return not failed


def _discover_goals(m, goals):
    if goals:
        return [canon(g) for g in goals]
    if m.defaults:
        return list(m.defaults)
    used = set()
    for e in m.edges:
        used.update(e.all_inputs() + e.order_only)
    return [o for e in m.edges for o in e.outputs if o not in used]


def build(world, goals=(), env=None, seed=0, jobs=1, filename='build.ninja'):
    """Run `ninja [goals]` in world.build."""
    res = Result()
    b = Builder(world, env or dict(os.environ), seed, jobs, res)
    try:
        # manifest regeneration
        for attempt in range(10):
            m = Manifest(world.build, filename)
            e = m.producer.get(filename)
            if e is None:
                break
            dirty = b.compute_dirty(m, [filename])
            if not dirty:
                break
            if not b.execute(m, dirty):
                res.status = 1
                res.output += 'ninja: error: rebuilding \'{}\': subcommand ' \
                    'failed\n'.format(filename)
                return res
        else:
            res.status = 1
            res.output += "ninja: error: manifest '{}' still dirty after " \
                "10 tries\n".format(filename)
            return res
        targets = _discover_goals(m, goals)
        todo = b.compute_dirty(m, targets)
        if not todo:
            res.output += 'ninja: no work to do.\n'
            return res
        if not b.execute(m, todo):
            res.status = 1
            res.output += 'ninja: build stopped: subcommand failed.\n'
    except NinjaError as e:
        res.status = 1
        res.output += 'ninja: error: {}\n'.format(e)
    except FileNotFoundError as e:
        res.status = 1
        res.output += 'ninja: error: loading \'{}\': {}\n'.format(
            filename, e.strerror)
    return res


def clean(builddir, filename='build.ninja'):
    """`ninja -t clean`: remove outputs of non-generator, non-phony edges,
    their depfiles, and the logs' knowledge of them."""
    m = Manifest(builddir, filename)
    n = 0
    for e in m.edges:
        if e.phony or m.binding(e, 'generator'):
            continue
        paths = list(e.outputs)
        df = m.binding(e, 'depfile')
        if df:
            paths.append(df)
        for o in paths:
            p = o if os.path.isabs(o) else os.path.join(builddir, o)
            if os.path.islink(p) or os.path.isfile(p):
                os.remove(p)
                n += 1
    return n


def run(world, goals=(), env=None, seed=0, jobs=1):
    """Same contract as bfgrun.run_make."""
    from . import bfgrun as R
    env = dict(env if env is not None else R.base_env(world))
    R._reset_launches(world)
    n_inv = world.log_len('invocations')
    n_steps = world.log_len('steps')
    res = build(world, list(goals), env, seed, jobs)
    world.normalise()
    res.inv = world.read_jsonl('invocations')[n_inv:]
    res.steps = world.read_jsonl('steps')[n_steps:]
    if res.timed_out:
        from .world import HarnessError
        raise HarnessError('a ninja command timed out:\n' +
                           res.output[-2000:])
    return res


def main(argv):
    # used by the `ninja` stub for `ninja -t clean`
    if argv[:2] == ['-t', 'clean']:
        n = clean(os.getcwd())
        print('Cleaning... {} files.'.format(n))
        return 0
    print('refninja: unsupported invocation', argv, file=sys.stderr)
    return 2


if __name__ == '__main__':
    sys.exit(main(sys.argv[1:]))
