"""The simulated world: a directory tree whose clock (mtimes) is logical.

A world is <root>/{src,build,bin,log} plus the file <root>/clock holding the
current logical tick.  One tick is one second counted from EPOCH; every writer
the simulator controls (the bfg9000 shim, the stub tools, the `touch` stub, the
reference Ninja, the simulator's own edits) stamps what it writes with a tick
taken from that file.  Anything that still carries a kernel stamp afterwards
(directories created by `mkdir -p`, depfiles rewritten by the real depfixer,
real gcc outputs before the wrapper restamps them) is folded into the logical
clock by normalise(), preserving order and ties.
"""

import hashlib
import json
import os
import shutil
import stat

EPOCH = 1_000_000_000          # logical tick 0, in seconds
HORIZON = 1_500_000_000        # anything above is a kernel stamp
NS = 1_000_000_000


TICKS = [0]     # logical ticks consumed by destroyed worlds of this process


class HarnessError(Exception):
    """Something went wrong in the simulator itself (never a VIOLATION)."""


def scratch_root():
    base = '/dev/shm' if os.access('/dev/shm', os.W_OK) else \
        os.environ.get('TMPDIR', '/tmp')
    return os.path.join(base, 'bfgsim-{}'.format(os.getuid()))


def tick_ns(tick):
    return (EPOCH + tick) * NS


def ns_tick(ns):
    return ns // NS - EPOCH


def read_clock(root):
    try:
        with open(os.path.join(root, 'clock')) as f:
            return int(f.read().strip() or 0)
    except FileNotFoundError:
        return 0


def write_clock(root, tick):
    with open(os.path.join(root, 'clock'), 'w') as f:
        f.write(str(tick))


def next_tick(root):
    t = read_clock(root) + 1
    write_clock(root, t)
    return t


def stamp(path, tick):
    ns = tick_ns(tick)
    os.utime(path, ns=(ns, ns), follow_symlinks=False)


def file_digest(path):
    h = hashlib.sha256()
    with open(path, 'rb') as f:
        for chunk in iter(lambda: f.read(1 << 16), b''):
            h.update(chunk)
    return h.hexdigest()[:16]


class World:
    TREES = ('src', 'build')

    def __init__(self, root, create=True):
        self.root = root
        self.src = os.path.join(root, 'src')
        self.build = os.path.join(root, 'build')
        self.bin = os.path.join(root, 'bin')
        self.log = os.path.join(root, 'log')
        if create:
            if os.path.exists(root):
                shutil.rmtree(root)
            for d in (self.src, self.build, self.bin, self.log):
                os.makedirs(d)
            write_clock(root, 0)
            for d in (self.src, self.build):
                stamp(d, 0)

    # -- clock ------------------------------------------------------------
    @property
    def tick(self):
        return read_clock(self.root)

    def next_tick(self):
        # hold(n): the next n edits share one (fresh) tick - several edits
        # within the granularity of the file system's clock
        held = getattr(self, '_held', None)
        if held and held[0] > 0:
            held[0] -= 1
            if held[1] is None:
                held[1] = next_tick(self.root)
            return held[1]
        return next_tick(self.root)

    def hold(self, n):
        self._held = [n, None]

    def advance(self, n):
        write_clock(self.root, self.tick + n)

    def _walk(self, top):
        for base, dirs, files in os.walk(top):
            dirs.sort()
            yield base
            for f in sorted(files):
                yield os.path.join(base, f)
            # symlinks to directories are listed in dirs by os.walk
            for d in list(dirs):
                p = os.path.join(base, d)
                if os.path.islink(p):
                    dirs.remove(d)
                    yield p

    def normalise(self):
        """Fold kernel stamps into the logical clock (order/tie preserving)."""
        kernel = {}
        for tree in (self.src, self.build):
            if not os.path.lexists(tree):
                continue
            for p in self._walk(tree):
                try:
                    m = os.lstat(p).st_mtime_ns
                except FileNotFoundError:
                    continue
                if m > HORIZON * NS:
                    kernel.setdefault(m, []).append(p)
        if not kernel:
            return 0
        t = self.tick
        for m in sorted(kernel):
            t += 1
            for p in kernel[m]:
                stamp(p, t)
        write_clock(self.root, t)
        return len(kernel)

    def mtime_tick(self, path):
        return ns_tick(os.lstat(path).st_mtime_ns)

    # -- paths ------------------------------------------------------------
    def s(self, rel=''):
        return os.path.join(self.src, rel) if rel else self.src

    def b(self, rel=''):
        return os.path.join(self.build, rel) if rel else self.build

    # -- edits (always under src/ unless abs path given) -------------------
    def _abs(self, rel):
        return rel if os.path.isabs(rel) else os.path.join(self.src, rel)

    def _stamp_parent(self, p, t):
        parent = os.path.dirname(p)
        if os.path.isdir(parent):
            stamp(parent, t)

    def mkdirs(self, rel, tick=None):
        """Create directory (and parents); every created dir and the first
        existing ancestor get the same fresh tick."""
        p = self._abs(rel)
        t = self.next_tick() if tick is None else tick
        todo = []
        q = p
        while not os.path.isdir(q):
            todo.append(q)
            q = os.path.dirname(q)
        for d in reversed(todo):
            os.mkdir(d)
        for d in todo:
            stamp(d, t)
        if todo:
            stamp(q, t)
        return t

    def write(self, rel, content, old_tick=None):
        """Create or overwrite a file.  A new tick for the file (or old_tick
        to model `mv`/`cp -p`/`tar x`), and a new tick for the directory when
        the entry is new."""
        p = self._abs(rel)
        parent = os.path.dirname(p)
        if not os.path.isdir(parent):
            self.mkdirs(parent)
        is_new = not os.path.lexists(p)
        mode = 'wb' if isinstance(content, bytes) else 'w'
        with open(p, mode) as f:
            f.write(content)
        t = self.next_tick()
        stamp(p, t if old_tick is None else old_tick)
        if is_new:
            stamp(parent, t)
        return t

    def append(self, rel, content):
        p = self._abs(rel)
        with open(p, 'a') as f:
            f.write(content)
        t = self.next_tick()
        stamp(p, t)
        return t

    def read(self, rel):
        with open(self._abs(rel)) as f:
            return f.read()

    def remove(self, rel):
        p = self._abs(rel)
        if os.path.isdir(p) and not os.path.islink(p):
            shutil.rmtree(p)
        else:
            os.remove(p)
        t = self.next_tick()
        self._stamp_parent(p, t)
        return t

    def rename(self, rel_a, rel_b):
        a, b = self._abs(rel_a), self._abs(rel_b)
        if not os.path.isdir(os.path.dirname(b)):
            self.mkdirs(os.path.dirname(b))
        os.rename(a, b)
        t = self.next_tick()
        self._stamp_parent(a, t)
        self._stamp_parent(b, t)
        return t

    def touch(self, rel):
        t = self.next_tick()
        stamp(self._abs(rel), t)
        return t

    # -- observation -------------------------------------------------------
    def snapshot(self, tree, with_ticks=False, ignore=()):
        """{relpath: (kind, digest[, tick])} for everything under tree."""
        top = {'src': self.src, 'build': self.build}.get(tree, tree)
        out = {}
        if not os.path.lexists(top):
            return out
        for p in self._walk(top):
            rel = os.path.relpath(p, top)
            if rel == '.':
                continue
            if any(rel == i or rel.startswith(i + '/') for i in ignore):
                continue
            st = os.lstat(p)
            if stat.S_ISLNK(st.st_mode):
                ent = ('l', os.readlink(p))
            elif stat.S_ISDIR(st.st_mode):
                ent = ('d', '')
            else:
                ent = ('f', file_digest(p))
            if with_ticks:
                ent = ent + (ns_tick(st.st_mtime_ns),)
            out[rel] = ent
        return out

    def read_build(self, rel, binary=False):
        try:
            with open(self.b(rel), 'rb' if binary else 'r') as f:
                return f.read()
        except (FileNotFoundError, IsADirectoryError, NotADirectoryError):
            return None

    # -- logs ----------------------------------------------------------------
    def read_jsonl(self, name):
        p = os.path.join(self.log, name)
        out = []
        try:
            with open(p) as f:
                for line in f:
                    line = line.strip()
                    if line:
                        out.append(json.loads(line))
        except FileNotFoundError:
            pass
        return out

    def log_len(self, name):
        return len(self.read_jsonl(name))

    # -- copy / restore ------------------------------------------------------
    def save_state(self, dest):
        """Copy src/, build/, log/ and the clock to dest (mtimes preserved)."""
        if os.path.exists(dest):
            shutil.rmtree(dest)
        os.makedirs(dest)
        for d in ('src', 'build', 'log'):
            shutil.copytree(os.path.join(self.root, d), os.path.join(dest, d),
                            symlinks=True)
            self._copy_dir_times(os.path.join(self.root, d),
                                 os.path.join(dest, d))
        shutil.copy2(os.path.join(self.root, 'clock'),
                     os.path.join(dest, 'clock'))

    def restore_state(self, saved):
        for d in ('src', 'build', 'log'):
            p = os.path.join(self.root, d)
            if os.path.exists(p):
                shutil.rmtree(p)
            shutil.copytree(os.path.join(saved, d), p, symlinks=True)
            self._copy_dir_times(os.path.join(saved, d), p)
        shutil.copy2(os.path.join(saved, 'clock'),
                     os.path.join(self.root, 'clock'))

    @staticmethod
    def _copy_dir_times(a, b):
        # copytree copies file times (copy2) and directory times (copystat);
        # symlink times are not copied on every platform: do it by hand.
        for base, dirs, files in os.walk(a):
            for n in dirs + files:
                pa = os.path.join(base, n)
                if os.path.islink(pa):
                    pb = os.path.join(b, os.path.relpath(pa, a))
                    st = os.lstat(pa)
                    os.utime(pb, ns=(st.st_mtime_ns, st.st_mtime_ns),
                             follow_symlinks=False)

    def destroy(self):
        try:
            TICKS[0] += read_clock(self.root)
        except (OSError, ValueError):
            pass
        shutil.rmtree(self.root, ignore_errors=True)
