"""History executor: concrete operations on a world, with the shared oracles
(fresh-configure reference, primary-file comparison)."""

import glob
import os
import shutil

from . import bfgrun as R
from . import world as W
from .world import HarnessError

BUILD_FILES = {'make': 'Makefile', 'ninja': 'build.ninja'}


class Violation:
    def __init__(self, prop, oracle, detail, features=(), op_index=None):
        self.prop = prop
        self.oracle = oracle
        self.detail = detail
        self.features = sorted(set(features))
        self.op_index = op_index

    def signature(self):
        return {'property': self.prop, 'oracle': self.oracle,
                'features': self.features}

    def to_json(self):
        d = self.signature()
        d['detail'] = self.detail
        d['op_index'] = self.op_index
        return d

    def __repr__(self):
        return 'Violation({}/{} {} {})'.format(self.prop, self.oracle,
                                               self.features, self.detail)


def parse_find_deps(text):
    """`.bfg_find_deps` -> (target, frozenset of dirs); make-escaped text."""
    if text is None:
        return None
    first = text.split('\n', 1)[0]
    # split on unescaped ': '
    i = 0
    while i < len(first):
        if first[i] == '\\':
            i += 2
            continue
        if first[i] == ':' and (i + 1 == len(first) or first[i + 1] == ' '):
            break
        i += 1
    target, rest = first[:i], first[i + 1:]
    deps, cur, j = [], '', 0
    while j < len(rest):
        c = rest[j]
        if c == '\\' and j + 1 < len(rest):
            cur += rest[j:j + 2]
            j += 2
            continue
        if c == ' ':
            if cur:
                deps.append(cur)
            cur = ''
        else:
            cur += c
        j += 1
    if cur:
        deps.append(cur)
    return target, frozenset(deps)


class Sim:
    def __init__(self, world, proj, cfg=None):
        self.world = world
        self.proj = proj
        self.cfg = dict(cfg or {})
        self.backend = proj.backend
        self.buildfile = BUILD_FILES.get(self.backend)
        self.env = R.base_env(world, proj.conf_env)
        self.stats = {}

    def count(self, key, n=1):
        self.stats[key] = self.stats.get(key, 0) + n

    # -- running things ------------------------------------------------------
    def configure(self, fault=None, mode='fork'):
        return R.run_bfg(self.world, self.proj.configure_args(self.world),
                         env=self.env, cwd=self.world.src, fault=fault,
                         mode=mode)

    def bfg(self, args, *, env=None, cwd=None, fault=None, mode='fork',
            hashseed='0', prog=None):
        return R.run_bfg(self.world, args, env=env or self.env,
                         cwd=cwd or self.world.build, fault=fault, mode=mode,
                         hashseed=hashseed, prog=prog)

    def backend_run(self, goals=(), env=None):
        if self.backend == 'make':
            return R.run_make(self.world, goals, env=env or self.env)
        elif self.backend == 'ninja':
            from . import refninja
            self.nruns = getattr(self, 'nruns', 0) + 1
            r = refninja.run(self.world, goals, env=env or self.env,
                             seed=self.cfg.get('seed', 0) * 1000003 +
                             self.nruns,
                             jobs=self.cfg.get('jobs', 1))
            self.count('ninja.schedule_events', len(r.schedule))
            if len(r.schedule) > 2:
                import hashlib
                self.schedules = getattr(self, 'schedules', set())
                self.schedules.add(hashlib.sha256(
                    repr(r.schedule).encode()).hexdigest()[:12])
            return r
        raise HarnessError('no executor for backend ' + self.backend)

    def regen_step(self, env=None):
        """The backend's own regeneration step: ask the backend to bring its
        build file up to date (and nothing else)."""
        return self.backend_run([self.buildfile], env=env)

    # -- observation ------------------------------------------------------------
    def primary(self, build=None):
        build = build or self.world.build
        out = {}
        for name in (self.buildfile, 'compile_commands.json'):
            p = os.path.join(build, name)
            if os.path.isfile(p):
                with open(p, errors='surrogateescape') as f:
                    out[name] = f.read()
        # generated .pc files: those the build file names as outputs of its
        # regeneration step (a left-over file of an earlier generation that
        # nothing mentions any more is nobody's output)
        bf = out.get(self.buildfile)
        for p in sorted(glob.glob(os.path.join(build, 'pkgconfig', '*.pc'))):
            rel = os.path.relpath(p, build)
            if bf is not None and rel not in bf:
                self.count('leftover_pc_ignored')
                continue
            with open(p, errors='surrogateescape') as f:
                out[rel] = f.read()
        return out

    def aux(self, build=None):
        build = build or self.world.build
        p = os.path.join(build, '.bfg_find_deps')
        # a left-over file that the build file no longer reads (a script
        # whose searches were all deleted) is nobody's input
        try:
            with open(os.path.join(build, self.buildfile),
                      errors='surrogateescape') as f:
                if '.bfg_find_deps' not in f.read():
                    return None
        except (FileNotFoundError, TypeError):
            pass
        try:
            with open(p) as f:
                return parse_find_deps(f.read())
        except FileNotFoundError:
            return None

    def fresh_reference(self):
        """What a fresh configure of the current sources writes: the real
        build dir is moved aside, the original configure command is re-run
        into an empty directory at the same path, the results are read and
        the real build dir is moved back."""
        w = self.world
        aside = w.build + '.real'
        if os.path.exists(aside):
            raise HarnessError('stale ' + aside)
        clock = w.tick
        os.rename(w.build, aside)
        os.mkdir(w.build)
        n_inv = w.log_len('invocations')
        try:
            r = self.configure()
            files = self.primary() if r.ok else {}
            aux = self.aux() if r.ok else None
        finally:
            shutil.rmtree(w.build, ignore_errors=True)
            os.rename(aside, w.build)
            # the reference run must not leave traces in the world's history
            self._truncate_log('invocations', n_inv)
            W.write_clock(w.root, clock)
        self.count('fresh_reference')
        return r, files, aux

    def _truncate_log(self, name, n):
        p = os.path.join(self.world.log, name)
        try:
            with open(p) as f:
                lines = f.readlines()
        except FileNotFoundError:
            return
        with open(p, 'w') as f:
            f.writelines(lines[:n])

    @staticmethod
    def diff_files(a, b):
        names = sorted(set(a) | set(b))
        return [n for n in names if a.get(n) != b.get(n)]

    # -- concrete edit ops --------------------------------------------------------
    def apply_edit(self, op):
        """op = [kind, args...]; returns False when the op no longer applies
        (after minimisation removed what it depended on)."""
        w = self.world
        k = op[0]
        try:
            if k == 'write':
                rel, content = op[1], op[2]
                old = op[3] if len(op) > 3 else None
                p = w.s(rel)
                if os.path.isdir(p) and not os.path.islink(p):
                    return False
                old_tick = None
                if old:
                    old_tick = max(1, w.tick - int(old))
                w.write(rel, content, old_tick=old_tick)
            elif k == 'append':
                if not os.path.isfile(w.s(op[1])):
                    return False
                w.append(op[1], op[2])
            elif k == 'remove':
                if not os.path.lexists(w.s(op[1])):
                    return False
                w.remove(op[1])
            elif k == 'rename':
                if not os.path.lexists(w.s(op[1])) or \
                   os.path.lexists(w.s(op[2])):
                    return False
                w.rename(op[1], op[2])
            elif k == 'mkdir':
                if os.path.lexists(w.s(op[1])):
                    return False
                w.mkdirs(op[1])
            elif k == 'touch':
                if not os.path.lexists(w.s(op[1])):
                    return False
                w.touch(op[1])
            elif k == 'tick':
                w.advance(int(op[1]))
            elif k == 'hold':
                w.hold(int(op[1]))
            else:
                raise HarnessError('unknown edit op {}'.format(op))
        except (NotADirectoryError, IsADirectoryError, FileExistsError):
            return False
        return True
